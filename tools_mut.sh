#!/bin/bash
# usage: tools_mut.sh <patch-file (absolute)> <check id> [tier]   — apply a patch to the repository under test,
# run a check, revert. The repository is /repo unless VERIF_REPO / VP_RUN_REPO names a snapshot (background runs).
set -u
V="$(cd "$(dirname "$0")" && pwd)"
REPO="${VERIF_REPO:-${VP_RUN_REPO:-/repo}}"
P="$1"; ID="$2"; T="${3:-quick}"
git -C "$REPO" apply "$P" || { echo "PATCH DOES NOT APPLY"; exit 3; }
"$V/check.sh" "$ID" "$T"; rc=$?
git -C "$REPO" checkout -- . ; git -C "$REPO" clean -fdq
"$V/build.sh" "$ID" >/dev/null 2>&1
echo "check exit=$rc"
exit $rc
