#!/bin/bash
# usage: tools_mut.sh <patch-file> <check id> [tier]   — apply a patch to /repo, run a check, revert.
set -u
P="$1"; ID="$2"; T="${3:-quick}"
git -C /repo apply "$P" || { echo "PATCH DOES NOT APPLY"; exit 3; }
/verif/check.sh "$ID" "$T"; rc=$?
git -C /repo checkout -- . ; git -C /repo clean -fdq
/verif/build.sh "$ID" >/dev/null 2>&1
echo "check exit=$rc"
exit $rc
