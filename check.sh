#!/bin/bash
# usage: check.sh <property id> [quick|thorough]
# Rebuilds the harness against /repo's current working tree (build tag verif) and runs the check.
# Exit: 0 property held, 1 VIOLATION line printed, 2 harness/build trouble.
set -u
cd "$(dirname "$0")"
export GOFLAGS=-mod=mod GOPROXY=off GOSUMDB=off GOTOOLCHAIN=local GOWORK=off
ID="$1"; TIER="${2:-${VERIF_TIER:-quick}}"
./build.sh "$ID" >&2 || { echo "BUILD FAILED" >&2; exit 2; }
exec ./bin/verifsim check "$ID" "$TIER"
