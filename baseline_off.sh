#!/bin/bash
# Runs the repository's pinned test suite with the verif guard OFF (no build tag).
set -u
export GOPROXY=off GOSUMDB=off GOTOOLCHAIN=local
rc=0
# The pinned baseline was recorded without CAP_DAC_OVERRIDE (one localkm test relies on an
# unreadable file); drop it when running as root so results match.
PRE=""
if [ "$(id -u)" = 0 ] && command -v setpriv >/dev/null; then PRE="setpriv --bounding-set=-dac_override,-dac_read_search"; fi
for m in . ./gcetcbendorsement; do
  (cd /repo/$m && $PRE go test -vet=off -count=1 -timeout 25m ./...) || rc=1
done
exit $rc
