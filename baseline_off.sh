#!/bin/bash
# Runs the repository's pinned test suite with the verif guard OFF (no build tag).
set -u
export GOPROXY=off GOSUMDB=off GOTOOLCHAIN=local
rc=0
for m in . ./gcetcbendorsement; do
  (cd /repo/$m && go test -vet=off -count=1 -timeout 25m ./...) || rc=1
done
exit $rc
