#!/bin/bash
# usage: seeds.sh <tier> <seed>...  — runs every check under several batch seeds (false-alarm hunt).
cd "$(dirname "$0")"
T="$1"; shift
for s in "$@"; do echo "##### VERIF_SEED=$s"; VERIF_SEED=$s ./run_all.sh "$T"; done
