//go:build go1.25

package worldk

import (
	"context"
	"crypto"
	"crypto/rsa"
	"crypto/sha256"
	"crypto/x509"
	"flag"
	"fmt"
	"google.golang.org/grpc/codes"
	"math/big"
	"os"
	"strings"
	"testing"
	"testing/synctest"
	"time"

	"cloud.google.com/go/kms/apiv1/kmspb"
	"github.com/google/gce-tcb-verifier/cmd/output"
	"github.com/google/gce-tcb-verifier/endorse"
	"github.com/google/gce-tcb-verifier/keys"
	"github.com/google/gce-tcb-verifier/keys/gcpkms"
	epb "github.com/google/gce-tcb-verifier/proto/endorsement"
	"github.com/google/gce-tcb-verifier/rotate"
	"github.com/google/gce-tcb-verifier/sign/gcsca"
	styp "github.com/google/gce-tcb-verifier/sign/types"
	"github.com/google/gce-tcb-verifier/verify"
	"google.golang.org/protobuf/proto"

	"verifsim/core"
	"verifsim/refv"
	"verifsim/seams"
)

var theT *testing.T

// TestWorker is the entry point of the world-K worker binary: it hands the command line to the
// shared worker dispatcher; every run executes inside its own synctest bubble.
func TestWorker(t *testing.T) {
	theT = t
	args := flag.Args()
	if len(args) == 0 {
		t.Skip("worker binary: no sub-command given")
	}
	os.Exit(core.Main(args))
}

func init() {
	endorse.VerifDeterministicDoc = true // hook H4
	core.Register(&core.Check{
		ID: "C20", World: "K (Cloud KMS)", Level: "exploration",
		Rule: "one evaluation = one operation of the real gcpkms Manager/Signer (Sign with PSS/SHA-256 and with other options; CreateNewRootKey / CreateFirstSigningKey over an existing key with a drawn version population; CreateNewSigningKeyVersion; Wipeout; rotate.Bootstrap + rotate.Key end to end over gcsca+SimDisk) against SimKMS inside a synctest bubble: populations {0,1,2,99,100,101,199,200,201,250,random} per key and around 100 keys per ring, version states drawn, paging policy drawn (exact pages, short pages, empty last page, one-element pages), generation latency 0-120 simulated seconds ending ENABLED / GENERATION_FAILED / DESTROYED, context deadlines, an RPC failure at a drawn call, integrity faults on AsymmetricSign (signature bit, CRC bit, each verified flag, digest corrupted in transit); " +
			"oracles: a signature is returned only for PSS/SHA-256 options and only if the response the stub sent had a matching CRC and both verified flags; returned version names are ENABLED in the stub at return time; a nil Wipeout leaves no ENABLED/DISABLED version; every operation finishes within 4*(versions+keys)+polls+32 RPCs; non-trivial = at least one fault fired or the population needs more than one listing page; distinct by event fingerprint",
		Assumptions: []string{
			"SimKMS is the harness author's reading of the Cloud KMS API contract: versions stay listed after destruction, generation is asynchronous, a page may be shorter than page_size (also empty) while more results remain, next_page_token is empty exactly on the last page, total_size is accurate",
			"salt-length variants of PSS/SHA-256 are not judged (the statement says RSA-PSS/SHA-256); PKCS#1 v1.5 and other hashes must be refused",
		},
		Components: []core.Component{
			{Name: "keys/gcpkms Manager + Signer, rotate.Bootstrap/Key, sign/gcsca, endorse.SignDoc, verify.Endorsement", Kind: "real"},
			{Name: "Cloud KMS + IAM service", Kind: "stub", Note: "SimKMS / SimIAM implementing the generated client interfaces"},
			{Name: "time (polling timer, context deadlines)", Kind: "stub", Note: "testing/synctest bubble (go1.26.8): virtual clock"},
			{Name: "object store", Kind: "stub", Note: "SimDisk"},
		},
		Budget: core.StdBudget(2500, 100*time.Second, 300000, 9*time.Minute),
		Plans:  c20Plans,
		Body:   runC20,
	})
}

// bubble runs f inside a synctest bubble, carrying panics (r.Fail's sentinel, harness bugs) out
// to the caller's goroutine.
func bubble(f func()) {
	var carried any
	func() {
		defer func() {
			// the end-of-bubble deadlock panic of synctest itself
			if p := recover(); p != nil && carried == nil {
				carried = p
			}
		}()
		synctest.Test(theT, func(*testing.T) {
			defer func() {
				if p := recover(); p != nil {
					carried = p
				}
			}()
			f()
		})
	}()
	if carried != nil {
		panic(carried)
	}
}

var populations = []int{0, 1, 2, 99, 100, 101, 199, 200, 201, 250}

func drawStates(r *core.Run, n int, liveBias bool) []kmspb.CryptoKeyVersion_CryptoKeyVersionState {
	out := make([]kmspb.CryptoKeyVersion_CryptoKeyVersionState, n)
	mode := r.Intn(4, "state-mode") // 0 all destroyed but a few, 1 mixed, 2 one live version at a drawn position, 3 all enabled
	livePos := 0
	if n > 0 {
		livePos = r.Intn(n, "live-pos")
		if r.Bool("live-last") {
			livePos = n - 1
		}
	}
	for i := range out {
		switch mode {
		case 0, 2:
			out[i] = kmspb.CryptoKeyVersion_DESTROY_SCHEDULED
			if r.Chance(3, "destroyed") {
				out[i] = kmspb.CryptoKeyVersion_DESTROYED
			}
		case 1:
			out[i] = []kmspb.CryptoKeyVersion_CryptoKeyVersionState{kmspb.CryptoKeyVersion_DESTROY_SCHEDULED, kmspb.CryptoKeyVersion_DISABLED, kmspb.CryptoKeyVersion_ENABLED,
				kmspb.CryptoKeyVersion_DESTROYED, kmspb.CryptoKeyVersion_GENERATION_FAILED, kmspb.CryptoKeyVersion_PENDING_IMPORT, kmspb.CryptoKeyVersion_IMPORT_FAILED}[r.Intn(7, "state")]
		default:
			out[i] = kmspb.CryptoKeyVersion_ENABLED
		}
	}
	if mode == 2 && n > 0 {
		out[livePos] = []kmspb.CryptoKeyVersion_CryptoKeyVersionState{kmspb.CryptoKeyVersion_ENABLED, kmspb.CryptoKeyVersion_DISABLED, kmspb.CryptoKeyVersion_PENDING_GENERATION}[r.Intn(3, "live-state")]
		if out[livePos] == kmspb.CryptoKeyVersion_ENABLED && livePos < n-1 && r.Chance(40, "generation-pending-later?") {
			// an interrupted rotation left a version that is still generating, listed after the enabled one
			out[livePos+1+r.Intn(n-1-livePos, "pending-pos")] = kmspb.CryptoKeyVersion_PENDING_GENERATION
		}
		if livePos < n-1 && r.Chance(30, "import-pending-later?") {
			// a version whose key material is still to be imported, listed after the live one
			out[n-1] = kmspb.CryptoKeyVersion_PENDING_IMPORT
		}
	}
	return out
}

// c20Plans sweeps the single-bit corruptions of an AsymmetricSign response ahead of the random
// runs: every bit of the signature (quick: one bit per byte), every bit of its CRC32C, each
// verified flag and a digest corrupted in transit, for a PSS/SHA-256 request on an undisturbed
// service. The prefix addresses c20's draws in order.
func c20Plans(tier string) []core.Trace {
	head := func(fault int) core.Trace {
		return core.Trace{{L: "paging", N: 5, V: 0}, {L: "gen-delay-s", N: 121, V: 0}, {L: "gen-outcome", N: 6, V: 0}, {L: "deadline-s", N: 400, V: 0},
			{L: "no-deadline?", N: 100, V: 0}, {L: "op", N: 6, V: 0}, {L: "signer-opts", N: 7, V: 0}, {L: "sign-fault", N: 10, V: fault}, {L: "rpc-fault?", N: 100, V: 0}}
	}
	var out []core.Trace
	for b := 0; b < 256; b++ {
		for bit := 0; bit < 8; bit++ {
			if tier != "thorough" && bit != b%8 {
				continue
			}
			out = append(out, append(head(1), core.Choice{L: "sig-byte", N: 256, V: b}, core.Choice{L: "sig-bit", N: 8, V: bit}))
		}
	}
	for bit := 0; bit < 64; bit++ { // signature_crc32c travels as an int64: all 64 bits
		out = append(out, append(head(2), core.Choice{L: "crc-bit", N: 64, V: bit}))
	}
	for f := 3; f <= 7; f++ { // flags, digest in transit, checksum field absent (with / without a flipped signature bit)
		out = append(out, head(f))
	}
	return out
}

func runC20(r *core.Run) {
	defer func() {
		// synctest's verdict that every goroutine of the bubble is durably blocked with no timer
		// pending: the operation under test waits for something that can never happen (only
		// reachable without a context deadline, which is itself a timer)
		if p := recover(); p != nil {
			if s := fmt.Sprint(p); strings.Contains(s, "all goroutines in bubble are blocked") {
				r.Fail("non-termination", "blocked-forever", "the operation is blocked for ever: no goroutine of it can run and no timer is pending (%s)", s)
			}
			panic(p)
		}
	}()
	bubble(func() { c20(r) })
}

func c20(r *core.Run) {
	start := time.Now()
	defer func() { r.Advance(time.Since(start)) }()
	k := NewSimKMS(r)
	k.Paging = r.Intn(5, "paging")
	m := &gcpkms.Manager{Project: "p", Location: "l", KeyRingID: "ring", KeyClient: k, IAMClient: &SimIAM{K: k}}
	ring := m.FullKeyRingName()
	k.Rings[ring] = true
	signer := &gcpkms.Signer{Manager: m}
	delay := time.Duration(r.Intn(121, "gen-delay-s")) * time.Second
	outcome := []kmspb.CryptoKeyVersion_CryptoKeyVersionState{kmspb.CryptoKeyVersion_ENABLED, kmspb.CryptoKeyVersion_ENABLED, kmspb.CryptoKeyVersion_ENABLED,
		kmspb.CryptoKeyVersion_GENERATION_FAILED, kmspb.CryptoKeyVersion_DESTROYED, kmspb.CryptoKeyVersion_DISABLED}[r.Intn(6, "gen-outcome")]
	k.GenDelay = func() time.Duration { return delay }
	k.GenOutcome = func() kmspb.CryptoKeyVersion_CryptoKeyVersionState { return outcome }
	deadline := time.Duration(20+r.Intn(400, "deadline-s")) * time.Second
	base := output.NewContext(context.Background(), &output.Options{Quiet: true, KeepGoing: true, Overwrite: true})
	// Some callers (the CLI) pass a context without a deadline: termination must not depend on one.
	noDeadline := r.Chance(30, "no-deadline?")
	ctx, cancel := context.WithTimeout(base, deadline)
	if noDeadline {
		cancel()
		ctx, cancel = context.WithCancel(base)
	}
	defer cancel()
	k.Exceeded = func() {
		nk, nv := k.Population(ring)
		key := "listing-loop"
		if k.Polls*2 > k.Calls {
			key = "polling-loop"
		}
		r.Fail("non-termination", key, "the operation issued more than %d RPCs for %d keys / %d versions and %d polls (paging policy %d): it is not terminating", k.Bound, nk, nv, k.Polls, k.Paging)
	}
	setBound := func() {
		nk, nv := k.Population(ring)
		// polls: at most one per 5 simulated seconds until the deadline (or, without a deadline,
		// until generation is over), plus slack
		polls := int(deadline / (5 * time.Second))
		if noDeadline {
			polls = int(delay/(5*time.Second)) + int(90/5) + 2
		}
		k.Bound = k.Calls + 4*(nv+nk) + polls + 32
	}
	pop := func(label string) int {
		if r.Chance(25, label+"-random?") {
			return r.Intn(260, label)
		}
		return populations[r.Intn(len(populations), label)]
	}
	op := r.Intn(6, "op")
	fired := func() bool {
		n := 0
		for _, v := range r.Faults {
			n += v
		}
		return n > 0
	}
	rpcFault := func() {
		if r.Chance(25, "rpc-fault?") {
			k.FailAt = k.Calls + r.Intn(12, "fail-at")
			// the status the service refuses the call with: none of them says anything about the
			// resource's state that an operation could act on
			k.FailCode = []codes.Code{codes.Unavailable, codes.Unavailable, codes.Internal, codes.FailedPrecondition, codes.Aborted, codes.ResourceExhausted, codes.PermissionDenied}[r.Intn(7, "fail-code")]
		} else if !noDeadline && r.Chance(12, "get-hangs?") {
			// a poll that the service never answers: it ends with the caller's deadline, and so
			// does the operation
			k.HangGets = 1 << 20
		}
	}
	switch op {
	case 0, 1: // ---------------- Sign ----------------
		keyName := m.FullKeyName("signing")
		k.AddKey(keyName, []kmspb.CryptoKeyVersion_CryptoKeyVersionState{kmspb.CryptoKeyVersion_ENABLED}, 0)
		ver := keyName + "/cryptoKeyVersions/1"
		optKind := r.Intn(7, "signer-opts")
		var opts crypto.SignerOpts
		pssSha256 := false
		switch optKind {
		case 0, 1, 2:
			opts, pssSha256 = &rsa.PSSOptions{SaltLength: rsa.PSSSaltLengthEqualsHash, Hash: crypto.SHA256}, true
		case 3:
			opts = crypto.SHA256 // PKCS#1 v1.5
		case 4:
			opts = &rsa.PSSOptions{SaltLength: rsa.PSSSaltLengthEqualsHash, Hash: crypto.SHA384}
		case 5:
			opts, pssSha256 = &rsa.PSSOptions{SaltLength: 20, Hash: crypto.SHA256}, true
		default:
			opts, pssSha256 = &rsa.PSSOptions{SaltLength: rsa.PSSSaltLengthAuto, Hash: crypto.SHA256}, true
		}
		k.SignFault = r.Intn(10, "sign-fault")
		if k.SignFault > 7 {
			k.SignFault = 0
		}
		rpcFault()
		setBound()
		digest := sha256.Sum256([]byte("c20"))
		sig, err := signer.Sign(ctx, ver, styp.Digest{SHA256: digest[:]}, opts)
		r.Eval(r.Fingerprint()+fmt.Sprint(optKind, k.SignFault, err == nil), k.SignFault != 0 || optKind >= 3 || fired())
		r.Eventf("sign opts=%d fault=%d -> returned=%v", optKind, k.SignFault, err == nil)
		if err != nil && r.Bool("retry-sign?") {
			// the caller tries again: same signer, same key version, same digest; the service has
			// not recovered. What comes back is judged like any answer (and must come from asking).
			k.LastSign = nil
			sig, err = signer.Sign(ctx, ver, styp.Digest{SHA256: digest[:]}, opts)
			r.Eventf("sign again -> returned=%v", err == nil)
			r.Probe("sign-retried")
		}
		if err == nil {
			r.Probe("signature-returned")
			if !pssSha256 {
				r.Fail("non-pss-accepted", fmt.Sprintf("opts-%d", optKind), "Signer.Sign returned a signature for signer options %v, which are not RSA-PSS/SHA-256", opts)
			}
			resp := k.LastSign
			switch {
			case resp == nil:
				r.Fail("unchecked-signature-returned", "no-rpc", "a signature was returned although the service was never asked")
			case crc(resp.GetSignature()) != resp.GetSignatureCrc32C().GetValue():
				r.Fail("unchecked-signature-returned", "signature-crc", "a signature was returned although the response's signature_crc32c does not match the signature (integrity fault %d)", k.SignFault)
			case !resp.GetVerifiedDigestCrc32C():
				r.Fail("unchecked-signature-returned", "verified-digest", "a signature was returned although the service did not confirm the digest checksum (integrity fault %d)", k.SignFault)
			case !resp.GetVerifiedDataCrc32C():
				r.Fail("unchecked-signature-returned", "verified-data", "a signature was returned although the service did not confirm the data checksum (integrity fault %d)", k.SignFault)
			case string(sig) != string(resp.GetSignature()):
				r.Fail("unchecked-signature-returned", "other-bytes", "the returned signature is not the one in the response")
			}
		}
	case 2: // ---------------- bootstrap over an existing key ----------------
		kbc := &gcpkms.BootstrapContext{RootKeyID: "root", SigningKeyID: "signing", SigningKeyOperators: []string{"user:op@example.com"}}
		bctx := gcpkms.NewBootstrapContext(ctx, kbc)
		which := r.Intn(2, "which-key")
		id := []string{"root", "signing"}[which]
		if r.Chance(80, "key-exists?") {
			n := pop("versions")
			k.AddKey(m.FullKeyName(id), drawStates(r, n, true), time.Duration(r.Intn(90, "pending-s"))*time.Second)
		}
		// does the key already have a version bootstrap must select (ENABLED) or wait for (PENDING)?
		usable, _, nvBefore := false, 0, 0
		hasEnabled, hasPending := false, false
		pendingFor := time.Duration(0)
		if kk := k.key(m.FullKeyName(id)); kk != nil {
			nvBefore = len(kk.versions)
			for _, v := range kk.versions {
				if st := v.StateNow(); st == kmspb.CryptoKeyVersion_ENABLED || st == kmspb.CryptoKeyVersion_PENDING_GENERATION {
					usable = true
					hasEnabled = hasEnabled || st == kmspb.CryptoKeyVersion_ENABLED
					hasPending = hasPending || st == kmspb.CryptoKeyVersion_PENDING_GENERATION
					if d := time.Until(v.readyAt); d > pendingFor {
						pendingFor = d
					}
				}
			}
		}
		// ... and will selecting or waiting succeed if the service answers every call? An enabled
		// version is there, or every pending one is going to be enabled well inside the deadline.
		mustSucceed := hasEnabled || (hasPending && outcome == kmspb.CryptoKeyVersion_ENABLED && (noDeadline || pendingFor+15*time.Second < deadline))
		rpcFault()
		setBound()
		var name string
		var err error
		if which == 0 {
			name, err = m.CreateNewRootKey(bctx)
		} else {
			name, err = m.CreateFirstSigningKey(bctx)
		}
		_, nv := k.Population(ring)
		r.Eval(r.Fingerprint(), fired() || nv > 100)
		r.Eventf("bootstrap-key %s -> ok=%v", id, err == nil)
		if kk := k.key(m.FullKeyName(id)); kk != nil && usable && len(kk.versions) > nvBefore {
			r.Fail("bootstrap-picked-non-enabled", "created-instead-of-selecting", "bootstrap created key version #%d although the key already had an enabled or pending version among its %d (paging policy %d): the listing was not accounted for", len(kk.versions), nvBefore, k.Paging)
		}
		if err != nil && mustSucceed && !fired() {
			r.Fail("bootstrap-picked-non-enabled", "gave-up-with-usable-version", "bootstrap failed (%v) although the service answered every call and the key has a version that is enabled or is being generated and will be enabled in time (%d versions, paging policy %d)", err, nvBefore, k.Paging)
		}
		if err == nil {
			r.Probe("bootstrap-returned-version")
			v := k.version(name)
			if v == nil || v.StateNow() != kmspb.CryptoKeyVersion_ENABLED {
				st := "unknown version"
				if v != nil {
					st = v.StateNow().String()
				}
				r.Fail("bootstrap-picked-non-enabled", id, "bootstrap returned key version %q, which is %s in the service (population %d, paging policy %d)", short(name), st, nv, k.Paging)
			}
			// the same long-lived Manager goes on: the version is destroyed (by a wipeout, or on its
			// own as a rotation does), and the operator bootstraps again over the key that is left
			if !fired() && r.Chance(35, "rebootstrap-after-destroy?") {
				k.FailAt, k.HangGets = -1, 0
				var derr error
				how := "wipeout"
				if r.Bool("destroy-by-wipeout") {
					derr = m.Wipeout(bctx)
				} else {
					how, derr = "destroy", m.DestroyKeyVersion(bctx, name)
				}
				if derr == nil {
					setBound()
					var name2 string
					var err2 error
					if which == 0 {
						name2, err2 = m.CreateNewRootKey(bctx)
					} else {
						name2, err2 = m.CreateFirstSigningKey(bctx)
					}
					r.Eventf("bootstrap-key %s again after %s -> ok=%v", id, how, err2 == nil)
					r.Probe("rebootstrap-after-destroy")
					if err2 == nil {
						if v2 := k.version(name2); v2 == nil || v2.StateNow() != kmspb.CryptoKeyVersion_ENABLED {
							st := "unknown version"
							if v2 != nil {
								st = v2.StateNow().String()
							}
							r.Fail("bootstrap-picked-non-enabled", id+"/again-after-"+how, "a second bootstrap through the same manager, after %s, returned key version %q, which is %s in the service", how, short(name2), st)
						}
					}
				}
			}
		}
	case 3: // ---------------- rotation: new version ----------------
		keyName := m.FullKeyName("signing")
		k.AddKey(keyName, drawStates(r, pop("versions"), true), 0)
		rctx := gcpkms.NewSigningKeyContext(ctx, &gcpkms.SigningKeyContext{SigningKeyID: "signing"})
		rpcFault()
		setBound()
		name, err := m.CreateNewSigningKeyVersion(rctx)
		r.Eval(r.Fingerprint(), fired() || delay > 0 || outcome != kmspb.CryptoKeyVersion_ENABLED)
		r.Eventf("rotate-version -> ok=%v", err == nil)
		if err == nil {
			r.Probe("rotation-returned-version")
			if v := k.version(name); v == nil || v.StateNow() != kmspb.CryptoKeyVersion_ENABLED {
				r.Fail("rotation-returned-non-enabled", "CreateNewSigningKeyVersion", "rotation returned key version %q, which is not ENABLED in the service (generation outcome %v after %v)", short(name), outcome, delay)
			}
		} else if delay > deadline {
			r.Probe("generation-outlasted-deadline")
		}
	case 4: // ---------------- wipeout ----------------
		nKeys := 1 + r.Intn(3, "keys")
		if r.Chance(20, "many-keys?") {
			nKeys = []int{99, 100, 101, 200}[r.Intn(4, "key-count")]
		}
		for i := 0; i < nKeys; i++ {
			n := 2
			if nKeys <= 3 {
				n = pop("versions")
			}
			k.AddKey(m.FullKeyName(fmt.Sprintf("key%03d", i)), drawStates(r, n, false), time.Duration(r.Intn(60, "pending-s"))*time.Second)
		}
		// a key in another ring must stay out of it
		k.AddKey("projects/p/locations/l/keyRings/other/cryptoKeys/x", []kmspb.CryptoKeyVersion_CryptoKeyVersionState{kmspb.CryptoKeyVersion_ENABLED}, 0)
		rpcFault()
		setBound()
		err := m.Wipeout(ctx)
		nk, nv := k.Population(ring)
		r.Eval(r.Fingerprint(), fired() || nv > 100 || nk > 100)
		r.Eventf("wipeout keys=%d versions=%d -> ok=%v", nk, nv, err == nil)
		if err == nil {
			r.Probe("wipeout-succeeded")
			if live := k.LiveVersions(ring); len(live) > 0 {
				r.Fail("wipeout-left-live-version", fmt.Sprintf("paging-%d", k.Paging), "Wipeout returned nil but %d key versions are still ENABLED or DISABLED (e.g. %s); %d keys, %d versions, paging policy %d", len(live), live[0], nk, nv, k.Paging)
			}
		}
		if err != nil && k.FailedRPC != "" && k.FailedRPC != "ListCryptoKeys" {
			// one call about ONE key failed: the error is reported (it is), and every other key is
			// wiped all the same. (A failed listing of the keys themselves excuses everything.)
			failedKey := k.FailedArg
			if i := strings.IndexAny(failedKey, "/ "); i >= 0 {
				failedKey = failedKey[:i]
			}
			for _, v := range k.LiveVersions(ring) {
				vk := v
				if i := strings.IndexByte(vk, '/'); i >= 0 {
					vk = vk[:i]
				}
				if vk != failedKey {
					r.Fail("wipeout-left-live-version", "other-key-after-one-failure", "Wipeout failed on %s(%s) and left %s ENABLED or DISABLED: a version of another key, which the failure did not concern (%d keys, %d versions)", k.FailedRPC, k.FailedArg, v, nk, nv)
				}
			}
			r.Probe("wipeout-failed-on-one-key")
		}
		if live := k.LiveVersions("projects/p/locations/l/keyRings/other"); len(live) != 1 {
			r.Fail("wipeout-left-live-version", "foreign-ring", "Wipeout touched a key ring it does not manage")
		}
	default: // ---------------- end to end: bootstrap + rotate + sign + verify ----------------
		delay, outcome = time.Duration(r.Intn(20, "e2e-delay-s"))*time.Second, kmspb.CryptoKeyVersion_ENABLED
		disk := seams.NewSimDisk(r, nil)
		ca := &gcsca.CertificateAuthority{Storage: disk, PrivateBucket: "b", SigningCertDirInGCS: "certs", RootPath: "root.crt"}
		now := time.Date(2025, 1, 1, 0, 0, 0, 0, time.UTC)
		// a generous deadline: this path checks that the pieces work together, not the timeout logic
		lctx, lcancel := context.WithTimeout(base, time.Hour)
		defer lcancel()
		kctx := keys.NewContext(lctx, &keys.Context{CA: ca, Signer: signer, Manager: m, Random: core.NewDetReader(7)})
		kbc := &gcpkms.BootstrapContext{RootKeyID: "root", SigningKeyID: "signing", SigningKeyOperators: []string{"user:op@example.com"}}
		bctx := rotate.NewBootstrapContext(gcpkms.NewBootstrapContext(kctx, kbc), &rotate.BootstrapContext{RootKeyCommonName: "root", SigningKeyCommonName: "signer",
			RootKeySerial: big.NewInt(1), SigningKeySerial: big.NewInt(2), Now: now})
		setBound()
		k.Bound += 64
		if err := rotate.Bootstrap(bctx); err != nil {
			r.Eventf("e2e bootstrap failed: %v", core.Short(err.Error(), 100))
			r.Eval(r.Fingerprint(), false)
			return
		}
		rots := r.Intn(3, "e2e-rotations")
		for i := 0; i < rots; i++ {
			rctx := rotate.NewSigningKeyContext(gcpkms.NewSigningKeyContext(kctx, &gcpkms.SigningKeyContext{SigningKeyID: "signing"}),
				&rotate.SigningKeyContext{SigningKeyCommonName: "signer", SigningKeySerial: big.NewInt(int64(3 + i)), Now: now.Add(time.Duration(i+1) * time.Hour)})
			k.Bound += 64
			if _, err := rotate.Key(rctx); err != nil {
				r.HarnessErr = "fault-free KMS rotation failed: " + err.Error()
				return
			}
		}
		ectx := endorse.NewContext(kctx, &endorse.Context{Timestamp: now})
		le, err := endorse.SignDoc(ectx, &epb.VMGoldenMeasurement{Digest: make([]byte, 48), ClSpec: 1, SevSnp: &epb.VMSevSnp{}})
		r.Eval(r.Fingerprint(), rots > 0)
		if err != nil {
			r.Fail("unchecked-signature-returned", "e2e-sign", "after a fault-free KMS bootstrap and %d rotations the authority cannot sign: %v", rots, err)
			return
		}
		raw, _ := proto.Marshal(le)
		rootPEM, _ := disk.Get("b", "root.crt")
		roots, perr := refv.ParsePEMCerts(rootPEM)
		if perr != nil {
			r.Fail("unchecked-signature-returned", "e2e-root", "no root certificate stored after bootstrap: %v", perr)
			return
		}
		pool := x509.NewCertPool()
		pool.AddCert(roots[0])
		at := now.Add(24 * time.Hour)
		if err := verify.Endorsement(raw, &verify.Options{RootsOfTrust: pool, Now: at}); err != nil || !refv.CheckBytes(raw, roots, at).OK() {
			r.Fail("unchecked-signature-returned", "e2e-verify", "an endorsement signed through Cloud KMS after %d rotations does not verify: %v", rots, err)
		}
		r.Probe("e2e-verified")
	}
	nk, nv := k.Population(ring)
	r.State(fmt.Sprintf("op%d paging%d", op, k.Paging))
	r.Sample = map[string]any{"op": []string{"sign", "sign", "bootstrap-key", "rotate-version", "wipeout", "end-to-end"}[op], "keys": nk, "versions": nv, "paging_policy": k.Paging,
		"rpcs": k.Calls, "polls": k.Polls, "simulated_s": time.Since(start).Seconds()}
}
