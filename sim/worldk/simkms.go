// Package worldk simulates Cloud KMS: the real keys/gcpkms Manager and Signer run against an
// in-process model of the KeyManagementService and IAM clients, inside a testing/synctest bubble
// so polling timers and context deadlines run on virtual time (property C20).
package worldk

import (
	"context"
	"crypto"
	"crypto/rsa"
	"crypto/sha256"
	"crypto/x509"
	"encoding/pem"
	"fmt"
	"hash/crc32"
	"strconv"
	"strings"
	"time"

	"cloud.google.com/go/iam/apiv1/iampb"
	"cloud.google.com/go/kms/apiv1/kmspb"
	"google.golang.org/grpc"
	"google.golang.org/grpc/codes"
	"google.golang.org/grpc/status"
	"google.golang.org/protobuf/types/known/wrapperspb"

	"verifsim/core"
	"verifsim/keypool"
	"verifsim/seams"
)

var crcTable = crc32.MakeTable(crc32.Castagnoli)

func crc(b []byte) int64 { return int64(crc32.Checksum(b, crcTable)) }

type simVersion struct {
	name     string
	state    kmspb.CryptoKeyVersion_CryptoKeyVersionState // state once generation is over
	readyAt  time.Time                                    // PENDING_GENERATION before this instant
	keyIdx   int
	destroys int
}

type simKey struct {
	name     string
	versions []*simVersion
}

// SimKMS is the in-process Cloud KMS model. It keeps the semantics the properties depend on:
// versions are never removed from listings (destroy schedules destruction), generation is
// asynchronous, listings are paged under a per-run policy, total_size is accurate, every RPC can
// fail, and AsymmetricSign reports request/response integrity the way the service does.
type SimKMS struct {
	kmspb.KeyManagementServiceClient // unimplemented methods panic on the nil embedded interface
	R                                *core.Run
	Rings                            map[string]bool
	Keys                             []*simKey // creation order
	Calls                            int
	Polls                            int
	FailAt                           int // RPC index that fails with FailCode (-1: none)
	FailCode                         codes.Code
	FailedRPC, FailedArg             string // the RPC the injected failure hit (name, short resource)
	HangGets                         int    // the next n GetCryptoKeyVersion calls block until their context ends
	// Paging policy: 0 exact pages; 1 short pages (1..page_size items, token while more remain);
	// 2 exact pages, but a listing that ends exactly on a page boundary gets one more, empty page;
	// 3 one-element pages; 4 like 1, and additionally some requests are answered with an EMPTY page
	// that still carries a token (legal: a page may hold zero results while more remain).
	Paging    int
	lastEmpty bool
	// GenDelay is the simulated key-generation latency; GenOutcome the state a version reaches.
	GenDelay   func() time.Duration
	GenOutcome func() kmspb.CryptoKeyVersion_CryptoKeyVersionState
	// Integrity fault applied to the next AsymmetricSign: 0 none, 1 flip a signature bit, 2 flip
	// the CRC, 3 clear verified_data_crc32c, 4 clear verified_digest_crc32c, 5 digest corrupted in
	// transit (the service signs what it received and reports the mismatch).
	SignFault int
	LastSign  *kmspb.AsymmetricSignResponse
	// Plan, when set, numbers every RPC as a seam call of the run's fault plan (world A: err-before,
	// err-after = lost acknowledgement, crash-after).
	Plan *seams.FaultPlan
	// Bound on RPCs: exceeding it ends the run with a non-termination verdict.
	Bound    int
	Exceeded func()
}

// NewSimKMS returns an empty service.
func NewSimKMS(r *core.Run) *SimKMS {
	return &SimKMS{R: r, Rings: map[string]bool{}, FailAt: -1, Bound: 1 << 30,
		GenDelay:   func() time.Duration { return 0 },
		GenOutcome: func() kmspb.CryptoKeyVersion_CryptoKeyVersionState { return kmspb.CryptoKeyVersion_ENABLED }}
}

func (s *SimKMS) enter(name, arg string) error {
	idx := s.Calls
	s.Calls++
	if s.Calls > s.Bound && s.Exceeded != nil {
		s.Exceeded()
	}
	if idx == s.FailAt {
		s.FailedRPC, s.FailedArg = name, arg
		s.R.Fault("kms-rpc-error", "rpc#%d %s", idx, name)
		code := s.FailCode
		if code == codes.OK {
			code = codes.Unavailable
		}
		return status.Errorf(code, "simkms: injected failure of %s", name)
	}
	if s.Calls <= 400 {
		s.R.Eventf("kms rpc#%d %s %s", idx, name, arg)
	}
	return nil
}

func short(n string) string {
	if i := strings.Index(n, "/cryptoKeys/"); i >= 0 {
		return n[i+len("/cryptoKeys/"):]
	}
	return n
}

func (s *SimKMS) key(name string) *simKey {
	for _, k := range s.Keys {
		if k.name == name {
			return k
		}
	}
	return nil
}

func (s *SimKMS) version(name string) *simVersion {
	i := strings.LastIndex(name, "/cryptoKeyVersions/")
	if i < 0 {
		return nil
	}
	k := s.key(name[:i])
	if k == nil {
		return nil
	}
	for _, v := range k.versions {
		if v.name == name {
			return v
		}
	}
	return nil
}

// StateNow is the version's state at the current (virtual) time.
func (v *simVersion) StateNow() kmspb.CryptoKeyVersion_CryptoKeyVersionState {
	if v.destroys > 0 {
		return kmspb.CryptoKeyVersion_DESTROY_SCHEDULED
	}
	if time.Now().Before(v.readyAt) {
		return kmspb.CryptoKeyVersion_PENDING_GENERATION
	}
	return v.state
}

func (v *simVersion) proto() *kmspb.CryptoKeyVersion {
	return &kmspb.CryptoKeyVersion{Name: v.name, State: v.StateNow(), Algorithm: kmspb.CryptoKeyVersion_RSA_SIGN_PSS_4096_SHA256}
}

// AddKey pre-populates a key with versions in the given states (oracle / setup access).
func (s *SimKMS) AddKey(name string, states []kmspb.CryptoKeyVersion_CryptoKeyVersionState, pendingFor time.Duration) {
	k := &simKey{name: name}
	for i, st := range states {
		v := &simVersion{name: name + "/cryptoKeyVersions/" + strconv.Itoa(i+1), state: st, keyIdx: (len(s.Keys)*7 + i) % len(keypool.Pool())}
		if st == kmspb.CryptoKeyVersion_PENDING_GENERATION {
			v.state, v.readyAt = s.GenOutcome(), time.Now().Add(pendingFor)
		}
		if st == kmspb.CryptoKeyVersion_DESTROY_SCHEDULED {
			v.state, v.destroys = kmspb.CryptoKeyVersion_ENABLED, 1
		}
		k.versions = append(k.versions, v)
	}
	s.Keys = append(s.Keys, k)
}

// LiveVersions lists versions that are ENABLED or DISABLED now.
func (s *SimKMS) LiveVersions(ring string) []string {
	var out []string
	for _, k := range s.Keys {
		if !strings.HasPrefix(k.name, ring+"/") {
			continue
		}
		for _, v := range k.versions {
			if st := v.StateNow(); st == kmspb.CryptoKeyVersion_ENABLED || st == kmspb.CryptoKeyVersion_DISABLED {
				out = append(out, short(v.name))
			}
		}
	}
	return out
}

// Population returns (#keys, #versions) of a ring.
func (s *SimKMS) Population(ring string) (int, int) {
	nk, nv := 0, 0
	for _, k := range s.Keys {
		if strings.HasPrefix(k.name, ring+"/") {
			nk++
			nv += len(k.versions)
		}
	}
	return nk, nv
}

// page cuts items[pos:] into one page under the paging policy.
func (s *SimKMS) page(total, pos, pageSize int) (n int, next string) {
	if pageSize <= 0 {
		pageSize = 25
	}
	remaining := total - pos
	if remaining < 0 {
		remaining = 0
	}
	n = remaining
	if n > pageSize {
		n = pageSize
	}
	if s.Paging == 4 && remaining > 0 && !s.lastEmpty && s.R.Chance(35, "empty-page?") {
		s.lastEmpty = true
		s.R.Probe("empty-page-with-token")
		return 0, "pos:" + strconv.Itoa(pos)
	}
	s.lastEmpty = false
	switch s.Paging {
	case 1, 4:
		if n > 1 {
			n = 1 + s.R.Intn(n, "short-page")
			s.R.Probe("short-page")
		}
	case 3:
		if n > 1 {
			n = 1
		}
	}
	more := pos+n < total
	if s.Paging == 2 && !more && n == pageSize && remaining > 0 {
		// ends exactly on a page boundary: hand out a token for one more (empty) page
		more = true
		s.R.Probe("empty-last-page")
	}
	if more {
		next = "pos:" + strconv.Itoa(pos+n)
	}
	if n == pageSize && !more {
		s.R.Probe("exactly-full-last-page")
	}
	return n, next
}

func parseToken(tok string) (int, error) {
	if tok == "" {
		return 0, nil
	}
	if !strings.HasPrefix(tok, "pos:") {
		return 0, status.Errorf(codes.InvalidArgument, "simkms: bad page token %q", tok)
	}
	return strconv.Atoi(strings.TrimPrefix(tok, "pos:"))
}

// ---- KeyManagementServiceClient ----

func (s *SimKMS) CreateKeyRing(_ context.Context, req *kmspb.CreateKeyRingRequest, _ ...grpc.CallOption) (*kmspb.KeyRing, error) {
	return rpc(s, "CreateKeyRing", req.GetKeyRingId(), true, func() (*kmspb.KeyRing, error) {
		name := req.GetParent() + "/keyRings/" + req.GetKeyRingId()
		if s.Rings[name] {
			return nil, status.Errorf(codes.AlreadyExists, "key ring %s exists", name)
		}
		s.Rings[name] = true
		return &kmspb.KeyRing{Name: name}, nil
	})
}

func (s *SimKMS) newVersion(k *simKey) *simVersion {
	v := &simVersion{name: k.name + "/cryptoKeyVersions/" + strconv.Itoa(len(k.versions)+1), state: s.GenOutcome(),
		readyAt: time.Now().Add(s.GenDelay()), keyIdx: (len(s.Keys)*7 + len(k.versions)) % len(keypool.Pool())}
	k.versions = append(k.versions, v)
	return v
}

func (s *SimKMS) CreateCryptoKey(_ context.Context, req *kmspb.CreateCryptoKeyRequest, _ ...grpc.CallOption) (*kmspb.CryptoKey, error) {
	return rpc(s, "CreateCryptoKey", req.GetCryptoKeyId(), true, func() (*kmspb.CryptoKey, error) {
		name := req.GetParent() + "/cryptoKeys/" + req.GetCryptoKeyId()
		if s.key(name) != nil {
			return nil, status.Errorf(codes.AlreadyExists, "crypto key %s exists", name)
		}
		k := &simKey{name: name}
		s.Keys = append(s.Keys, k)
		if !req.GetSkipInitialVersionCreation() {
			s.newVersion(k)
		}
		return &kmspb.CryptoKey{Name: name, Purpose: req.GetCryptoKey().GetPurpose()}, nil
	})
}

func (s *SimKMS) CreateCryptoKeyVersion(_ context.Context, req *kmspb.CreateCryptoKeyVersionRequest, _ ...grpc.CallOption) (*kmspb.CryptoKeyVersion, error) {
	return rpc(s, "CreateCryptoKeyVersion", short(req.GetParent()), true, func() (*kmspb.CryptoKeyVersion, error) {
		k := s.key(req.GetParent())
		if k == nil {
			return nil, status.Errorf(codes.NotFound, "crypto key %s not found", req.GetParent())
		}
		return s.newVersion(k).proto(), nil
	})
}

func (s *SimKMS) GetCryptoKeyVersion(ctx context.Context, req *kmspb.GetCryptoKeyVersionRequest, _ ...grpc.CallOption) (*kmspb.CryptoKeyVersion, error) {
	s.Polls++
	if s.HangGets > 0 {
		// a service that does not answer: the call ends when the caller's context does (only drawn
		// for contexts that have a deadline)
		s.HangGets--
		if s.Calls++; s.Calls > s.Bound && s.Exceeded != nil {
			s.Exceeded()
		}
		s.R.Fault("kms-get-hangs", "%s", short(req.GetName()))
		<-ctx.Done()
		return nil, status.FromContextError(ctx.Err()).Err()
	}
	return rpc(s, "GetCryptoKeyVersion", short(req.GetName()), false, func() (*kmspb.CryptoKeyVersion, error) {
		v := s.version(req.GetName())
		if v == nil {
			return nil, status.Errorf(codes.NotFound, "version %s not found", req.GetName())
		}
		return v.proto(), nil
	})
}

func (s *SimKMS) ListCryptoKeyVersions(_ context.Context, req *kmspb.ListCryptoKeyVersionsRequest, _ ...grpc.CallOption) (*kmspb.ListCryptoKeyVersionsResponse, error) {
	return rpc(s, "ListCryptoKeyVersions", short(req.GetParent())+" token="+req.GetPageToken(), false, func() (*kmspb.ListCryptoKeyVersionsResponse, error) {
		k := s.key(req.GetParent())
		if k == nil {
			return nil, status.Errorf(codes.NotFound, "crypto key %s not found", req.GetParent())
		}
		pos, err := parseToken(req.GetPageToken())
		if err != nil {
			return nil, err
		}
		n, next := s.page(len(k.versions), pos, int(req.GetPageSize()))
		resp := &kmspb.ListCryptoKeyVersionsResponse{NextPageToken: next, TotalSize: int32(len(k.versions))}
		for _, v := range k.versions[min(pos, len(k.versions)):min(pos+n, len(k.versions))] {
			resp.CryptoKeyVersions = append(resp.CryptoKeyVersions, v.proto())
		}
		return resp, nil
	})
}

func (s *SimKMS) ListCryptoKeys(_ context.Context, req *kmspb.ListCryptoKeysRequest, _ ...grpc.CallOption) (*kmspb.ListCryptoKeysResponse, error) {
	return rpc(s, "ListCryptoKeys", "token="+req.GetPageToken(), false, func() (*kmspb.ListCryptoKeysResponse, error) {
		var keys []*simKey
		for _, k := range s.Keys {
			if strings.HasPrefix(k.name, req.GetParent()+"/") {
				keys = append(keys, k)
			}
		}
		pos, err := parseToken(req.GetPageToken())
		if err != nil {
			return nil, err
		}
		n, next := s.page(len(keys), pos, int(req.GetPageSize()))
		resp := &kmspb.ListCryptoKeysResponse{NextPageToken: next, TotalSize: int32(len(keys))}
		for _, k := range keys[min(pos, len(keys)):min(pos+n, len(keys))] {
			resp.CryptoKeys = append(resp.CryptoKeys, &kmspb.CryptoKey{Name: k.name})
		}
		return resp, nil
	})
}

func (s *SimKMS) DestroyCryptoKeyVersion(_ context.Context, req *kmspb.DestroyCryptoKeyVersionRequest, _ ...grpc.CallOption) (*kmspb.CryptoKeyVersion, error) {
	return rpc(s, "DestroyCryptoKeyVersion", short(req.GetName()), true, func() (*kmspb.CryptoKeyVersion, error) {
		v := s.version(req.GetName())
		if v == nil {
			return nil, status.Errorf(codes.NotFound, "version %s not found", req.GetName())
		}
		if st := v.StateNow(); st != kmspb.CryptoKeyVersion_ENABLED && st != kmspb.CryptoKeyVersion_DISABLED {
			return nil, status.Errorf(codes.FailedPrecondition, "version %s is %v", req.GetName(), st)
		}
		v.destroys++
		return v.proto(), nil
	})
}

func (s *SimKMS) GetPublicKey(_ context.Context, req *kmspb.GetPublicKeyRequest, _ ...grpc.CallOption) (*kmspb.PublicKey, error) {
	return rpc(s, "GetPublicKey", short(req.GetName()), false, func() (*kmspb.PublicKey, error) {
		v := s.version(req.GetName())
		if v == nil {
			return nil, status.Errorf(codes.NotFound, "version %s not found", req.GetName())
		}
		if v.StateNow() != kmspb.CryptoKeyVersion_ENABLED {
			return nil, status.Errorf(codes.FailedPrecondition, "version %s is %v", req.GetName(), v.StateNow())
		}
		der, _ := x509.MarshalPKIXPublicKey(&keypool.Pool()[v.keyIdx].PublicKey)
		return &kmspb.PublicKey{Pem: string(pem.EncodeToMemory(&pem.Block{Type: "PUBLIC KEY", Bytes: der})), Name: v.name}, nil
	})
}

func (s *SimKMS) AsymmetricSign(_ context.Context, req *kmspb.AsymmetricSignRequest, _ ...grpc.CallOption) (*kmspb.AsymmetricSignResponse, error) {
	return rpc(s, "AsymmetricSign", short(req.GetName()), false, func() (*kmspb.AsymmetricSignResponse, error) {
		v := s.version(req.GetName())
		if v == nil {
			return nil, status.Errorf(codes.NotFound, "version %s not found", req.GetName())
		}
		if v.StateNow() != kmspb.CryptoKeyVersion_ENABLED {
			return nil, status.Errorf(codes.FailedPrecondition, "version %s is %v", req.GetName(), v.StateNow())
		}
		digest := append([]byte(nil), req.GetDigest().GetSha256()...)
		if s.SignFault == 5 && len(digest) > 0 {
			digest[0] ^= 1 // corrupted in transit: the service sees other bytes than the client sent
		}
		if len(digest) != sha256.Size {
			return nil, status.Errorf(codes.InvalidArgument, "digest must be %d bytes", sha256.Size)
		}
		sig, err := rsa.SignPSS(core.NewDetReader(uint64(s.Calls)), keypool.Pool()[v.keyIdx], crypto.SHA256, digest, &rsa.PSSOptions{SaltLength: rsa.PSSSaltLengthEqualsHash})
		if err != nil {
			return nil, status.Errorf(codes.Internal, "sign: %v", err)
		}
		resp := &kmspb.AsymmetricSignResponse{Name: v.name, Signature: sig, SignatureCrc32C: wrapperspb.Int64(crc(sig)),
			VerifiedDigestCrc32C: req.GetDigestCrc32C() != nil && req.GetDigestCrc32C().GetValue() == crc(digest),
			VerifiedDataCrc32C:   req.GetDataCrc32C() != nil && req.GetDataCrc32C().GetValue() == crc(req.GetData())}
		switch s.SignFault {
		case 1:
			resp.Signature = append([]byte(nil), sig...)
			resp.Signature[s.R.Intn(len(sig), "sig-byte")] ^= 1 << s.R.Intn(8, "sig-bit")
		case 2:
			resp.SignatureCrc32C = wrapperspb.Int64(crc(sig) ^ (1 << s.R.Intn(64, "crc-bit")))
		case 6:
			// the optional checksum wrapper is missing altogether
			resp.SignatureCrc32C = nil
		case 7:
			resp.SignatureCrc32C = nil
			resp.Signature = append([]byte(nil), sig...)
			resp.Signature[len(sig)/2] ^= 0x10
		case 3:
			resp.VerifiedDataCrc32C = false
		case 4:
			resp.VerifiedDigestCrc32C = false
		}
		if s.SignFault != 0 {
			s.R.Fault("kms-integrity", "kind %d", s.SignFault)
		}
		s.LastSign = resp
		return resp, nil
	})
}

// SimIAM is the IAM policy client double.
type SimIAM struct {
	iampb.IAMPolicyClient
	K *SimKMS
}

func (i *SimIAM) SetIamPolicy(_ context.Context, req *iampb.SetIamPolicyRequest, _ ...grpc.CallOption) (*iampb.Policy, error) {
	if err := i.K.enter("SetIamPolicy", short(req.GetResource())); err != nil {
		return nil, err
	}
	return req.GetPolicy(), nil
}

var _ = fmt.Sprint

// rpc runs one RPC under the service's failure injection: the C20 world's FailAt index and, when
// a fault plan is attached, the plan's outcome for the call.
func rpc[T any](s *SimKMS, name, arg string, mutating bool, f func() (T, error)) (T, error) {
	var zero T
	if err := s.enter(name, arg); err != nil {
		return zero, err
	}
	if s.Plan == nil {
		return f()
	}
	site := "kms." + name
	switch s.Plan.Next(site, mutating) {
	case seams.ErrBefore:
		return zero, status.Errorf(codes.Unavailable, "simkms: %v", seams.Err(site))
	case seams.ErrAfter:
		if _, err := f(); err != nil {
			return zero, err
		}
		return zero, status.Errorf(codes.Unavailable, "simkms: %v", seams.Err(site))
	case seams.CrashAfter:
		f()
		panic(seams.Crash{At: site})
	}
	return f()
}

// LiveVersionNames lists the full names of every ENABLED version, sorted by creation.
func (s *SimKMS) LiveVersionNames() []string {
	var out []string
	for _, k := range s.Keys {
		for _, v := range k.versions {
			if v.StateNow() == kmspb.CryptoKeyVersion_ENABLED {
				out = append(out, v.name)
			}
		}
	}
	return out
}
