// Package worlds simulates streams: the io.Reader / io.Writer arguments of the event-log codecs
// are the "network and disk" here (properties C18 and part of C07).
package worlds

import (
	"bytes"
	"errors"
	"fmt"
	oabi "github.com/google/gce-tcb-verifier/ovmf/abi"
	"io"
	"time"

	"github.com/google/gce-tcb-verifier/eventlog"
	"github.com/google/uuid"

	"verifsim/core"
)

func init() {
	core.Register(&core.Check{
		ID: "C18", World: "S (streams)", Level: "exploration",
		Rule: "one evaluation = one decode or encode call of an event-log stream codec (CryptoAgileLog, TCGPCREvent2, TCGEventData+SP800155Event3, TaggedDigest, ByteSizedCStr, Uint32SizedArray, EfiGUID) on a value with drawn in-range fields, under a stream fault: a chunk schedule (1-byte reads, random chunks, data returned together with EOF), EOF at EVERY prefix length of the encoding (all lengths for encodings up to 700 bytes, 96 drawn lengths beyond), a read error at a drawn offset, or a writer that fails / short-writes at EVERY offset (same bound); " +
			"oracles: chunking invariance against the decoder's own single-shot result, a strict prefix decodes to an error or to a value that re-encodes to exactly that prefix (up to trailing zero padding), injected read and write errors are returned, a nil Marshal wrote exactly the encoding; PI hand-off blocks (generic header, PHIT, resource descriptor, GUID extension incl. sizes around and beyond what the 16-bit length field can describe, hand-built blocks with a wrong type or length) are written through the same failing writers and compared with the PI specification layout; non-trivial = at least one stream fault fired; distinct by (codec, fault kind, position class, outcome)",
		Assumptions: []string{
			"scope: codecs that take io.Reader / io.Writer (package eventlog, and the WriteTo encoders of the PI hand-off blocks in ovmf/abi/pihob.go). The slice-based codecs of ovmf/abi and sev/abi.go meet no reader, writer, clock or schedule and are NOT covered",
			"a legal io.Reader may return fewer bytes than asked, and may return the last bytes together with io.EOF",
		},
		Components: []core.Component{
			{Name: "eventlog codecs (Unmarshal/Marshal), SP800155Event3", Kind: "real"},
			{Name: "ovmf/abi EFIHOB*.WriteTo, CreateEFIHOBGUID", Kind: "real"},
			{Name: "reader / writer arguments", Kind: "stub", Note: "SimReader, SimWriter"},
		},
		Budget: core.StdBudget(1200, 100*time.Second, 150000, 9*time.Minute),
		Body:   runC18,
	})
}

var errInjectedIO = errors.New("injected stream error")

// SimReader delivers data under a chunk schedule, with optional early EOF and error injection.
type SimReader struct {
	data    []byte
	pos     int
	end     int // EOF position (<= len(data))
	errAt   int // position at which Read fails (-1: never)
	mode    int // 0 whole, 1 one byte, 2 random chunks, 3 random chunks + data-with-EOF
	r       *core.Run
	chunked bool
	// meanwhile, when set, runs between two reads: another caller's codec operation that overlaps
	// with this one in time (the reader blocked in between)
	meanwhile func()
	reads     int
}

func (s *SimReader) Read(p []byte) (int, error) {
	s.reads++
	if s.meanwhile != nil && s.reads > 1 {
		s.meanwhile()
	}
	if s.errAt >= 0 && s.pos >= s.errAt {
		return 0, errInjectedIO
	}
	if s.pos >= s.end {
		return 0, io.EOF
	}
	if len(p) == 0 {
		return 0, nil
	}
	n := len(p)
	switch s.mode {
	case 1:
		n = 1
	case 2, 3:
		n = 1 + s.r.Intn(len(p), "chunk")
	}
	lim := s.end
	if s.errAt >= 0 && s.errAt < lim {
		lim = s.errAt
	}
	if s.pos+n > lim {
		n = lim - s.pos
	}
	if n < len(p) {
		s.chunked = true
	}
	copy(p, s.data[s.pos:s.pos+n])
	s.pos += n
	if s.mode == 3 && s.pos >= s.end {
		return n, io.EOF
	}
	return n, nil
}

// SimWriter accepts failAt bytes, then fails (short=true: takes part of the offending write).
type SimWriter struct {
	buf    []byte
	failAt int // -1: never
	short  bool
	failed bool
	// meanwhile, when set, runs inside every Write (another caller's operation overlapping in time)
	meanwhile func()
}

func (w *SimWriter) Write(p []byte) (int, error) {
	if w.meanwhile != nil {
		w.meanwhile()
	}
	if w.failAt < 0 || len(w.buf)+len(p) <= w.failAt {
		w.buf = append(w.buf, p...)
		return len(p), nil
	}
	w.failed = true
	room := w.failAt - len(w.buf)
	if room < 0 {
		room = 0
	}
	if w.short {
		w.buf = append(w.buf, p[:room]...)
		return room, errInjectedIO
	}
	return 0, errInjectedIO
}

type codec struct {
	name string
	make func() interface {
		Unmarshal(io.Reader) error
		Marshal(io.Writer) error
	}
}

func enc(v interface{ Marshal(io.Writer) error }) ([]byte, error) {
	var b bytes.Buffer
	err := v.Marshal(&b)
	return b.Bytes(), err
}

func genStr(r *core.Run, label string) string {
	n := r.Intn(12, label+"-len")
	if r.Chance(6, label+"-boundary?") {
		// around the one-byte size limit: 254 characters + terminator is the longest legal string
		n = []int{252, 253, 254, 255, 256, 300}[r.Intn(6, label+"-boundary")]
	}
	b := make([]byte, n)
	for i := range b {
		b[i] = byte('a' + r.Intn(26, label))
	}
	// the field is delimited by its size prefix, not by its terminator: an interior NUL or a
	// non-ASCII byte is part of the value
	if n >= 2 && r.Chance(10, label+"-odd-byte?") {
		b[r.Intn(n-1, label+"-odd-at")] = []byte{0x00, 0xff, 0x80, '\n'}[r.Intn(4, label+"-odd-byte")]
	}
	strLens = append(strLens, n)
	return string(b)
}

// strLens collects the lengths of the strings generated for the current run's value.
var strLens []int

// badDigests counts the digests of wrong length generated for the current run's value.
var badDigests int

func genBytes(r *core.Run, max int, label string) []byte {
	n := r.Intn(max+1, label+"-len")
	b := make([]byte, n)
	for i := range b {
		b[i] = byte(r.Intn(256, label))
	}
	return b
}

func genSP(r *core.Run) *eventlog.SP800155Event3 {
	return &eventlog.SP800155Event3{PlatformManufacturerID: uint32(r.Intn(1<<16, "pmid")), ReferenceManifestGUID: eventlog.EfiGUID{UUID: uuid.UUID{1, 2, 3, byte(r.Intn(256, "guid"))}},
		PlatformManufacturerStr: eventlog.ByteSizedCStr{Data: genStr(r, "pm")}, PlatformModel: eventlog.ByteSizedCStr{Data: genStr(r, "model")},
		PlatformVersion: eventlog.ByteSizedCStr{Data: genStr(r, "pv")}, FirmwareManufacturerStr: eventlog.ByteSizedCStr{Data: genStr(r, "fm")},
		FirmwareManufacturerID: uint32(r.Intn(1<<16, "fmid")), FirmwareVersion: eventlog.ByteSizedCStr{Data: genStr(r, "fv")},
		RIMLocatorType: uint32(r.Intn(4, "loctype")), RIMLocator: eventlog.Uint32SizedArray{Data: genBytes(r, 40, "loc")},
		PlatformCertLocatorType: uint32(r.Intn(4, "pcloctype")), PlatformCertLocator: eventlog.Uint32SizedArray{Data: genBytes(r, 12, "pcloc")}}
}

func genDigest(r *core.Run) *eventlog.TaggedDigest {
	alg := []uint16{0x4, 0xB, 0xC}[r.Intn(3, "alg")]
	size := map[uint16]int{0x4: 20, 0xB: 32, 0xC: 48}[alg]
	if r.Chance(5, "digest-wrong-length?") {
		// out of range: a digest shorter or longer than its algorithm's size must be refused
		size += []int{-1, 1, 16, -size}[r.Intn(4, "digest-length-delta")]
		badDigests++
	}
	d := make([]byte, size)
	for i := range d {
		d[i] = byte(r.Intn(256, "digest"))
	}
	return &eventlog.TaggedDigest{AlgID: alg, Digest: d}
}

func genEventData(r *core.Run) eventlog.TCGEventData {
	switch r.Intn(4, "event-kind") {
	case 0:
		return eventlog.TCGEventData{Event: genSP(r)}
	case 1:
		if r.Chance(6, "large-event?") {
			// EventSize is a UINT32: one measured blob may well exceed what a GUID hand-off block
			// (the SP800-155 events' vehicle) can carry
			n := []int{65512, 65513, 70000, 1 << 17}[r.Intn(4, "large-event-size")]
			big := make([]byte, n)
			for i := range big {
				big[i] = byte(i*13 + n)
			}
			return eventlog.TCGEventData{Event: &eventlog.UnknownEvent{Data: append([]byte("0123456789abcdef"), big...)}}
		}
		return eventlog.TCGEventData{Event: &eventlog.UnknownEvent{Data: append([]byte("0123456789abcdef"), genBytes(r, 20, "unk")...)}}
	case 2:
		return eventlog.TCGEventData{Event: &eventlog.UnknownEvent{Data: genBytes(r, 15, "short-unk")}}
	}
	return eventlog.TCGEventData{}
}

func genEvent2(r *core.Run) *eventlog.TCGPCREvent2 {
	e := &eventlog.TCGPCREvent2{PCRIndex: uint32(r.Intn(24, "pcr")), EventType: uint32(r.Intn(8, "etype")), EventData: genEventData(r)}
	for i, n := 0, r.Intn(3, "digests"); i < n; i++ {
		e.Digests.Array = append(e.Digests.Array, genDigest(r))
	}
	return e
}

func genLog(r *core.Run) *eventlog.CryptoAgileLog {
	l := &eventlog.CryptoAgileLog{Header: eventlog.TCGPCClientPCREvent{PCRIndex: 0, EventType: 3, EventData: eventlog.TCGEventData{Event: &eventlog.UnknownEvent{Data: append([]byte("Spec ID Event03\x00"), genBytes(r, 8, "hdr")...)}}}}
	for i, n := 0, r.Intn(4, "events"); i < n; i++ {
		l.Events = append(l.Events, genEvent2(r))
	}
	return l
}

type streamable interface {
	Unmarshal(io.Reader) error
	Marshal(io.Writer) error
}

// c18HobBoundary: an SP800-155 event is destined to be the data of an EFI GUID HOB, whose length
// field has 16 bits: around that boundary the encoder either refuses the event or emits something
// the HOB builder accepts.
func c18HobBoundary(r *core.Run) {
	ev := genSP(r)
	ev.RIMLocator.Data = nil
	base, err := ev.MarshalToBytes()
	if err != nil {
		return
	}
	delta := r.Intn(24, "hob-delta") - 12
	n := oabi.MaxGUIDHOBDataSize + delta - len(base)
	if n < 0 {
		return
	}
	ev.RIMLocator.Data = bytes.Repeat([]byte{0x5a}, n)
	out, err := ev.MarshalToBytes()
	outcome := "refused"
	if err == nil {
		outcome = "encoded"
		if _, herr := oabi.CreateEFIHOBGUID(uuid.UUID{1}, out); herr != nil {
			r.Fail("truncation-accepted", "SP800155Event3/hob-boundary", "SP800155Event3: an event of %d bytes was encoded although it does not fit the GUID HOB it is emitted in: %v", len(out), herr)
		}
		var back eventlog.SP800155Event3
		if uerr := back.UnmarshalFromBytes(out[16:]); uerr != nil { // after the 16-byte event signature
			r.Fail("chunking-changes-result", "SP800155Event3/hob-boundary", "SP800155Event3: a %d-byte event does not decode: %v", len(out), uerr)
		}
	} else if delta <= 0 {
		r.Fail("chunking-changes-result", "SP800155Event3/hob-boundary-refused", "SP800155Event3: an event of %d bytes, which fits a GUID HOB, is refused: %v", len(base)+n, err)
	}
	r.Eval(fmt.Sprintf("SP800155Event3|hob-boundary|delta=%d|%s", delta, outcome), true)
	r.Probe("hob-boundary")
}

// c18InnerCut: event data whose size field is consistent but whose SP800-155 payload is cut short
// (down to the bare 16-byte signature): a truncated near-valid encoding, to be refused — and
// certainly not accepted as some other kind of event.
func c18InnerCut(r *core.Run) {
	ev := genSP(r)
	full, err := ev.MarshalToBytes() // signature + payload
	if err != nil || len(full) <= 16 {
		return
	}
	// (UnmarshalFromBytes works on the caller's slice: what it returns must not alias it)
	{
		src := append([]byte(nil), full[16:]...)
		var back eventlog.SP800155Event3
		if uerr := back.UnmarshalFromBytes(src); uerr == nil {
			for i := range src {
				src[i] = 0xEE
			}
			if again, merr := back.MarshalToBytes(); merr != nil || !bytes.Equal(again, full) {
				r.Fail("chunking-changes-result", "SP800155Event3/source-reused", "SP800155Event3: the decoded event changed when the slice it was decoded from was overwritten afterwards (%v)", merr)
			}
			// fields own their storage: growing one does not write into another
			pc := append([]byte(nil), back.PlatformCertLocator.Data...)
			back.RIMLocator.Data = append(back.RIMLocator.Data, bytes.Repeat([]byte{0xDD}, 24)...)
			if !bytes.Equal(pc, back.PlatformCertLocator.Data) {
				r.Fail("chunking-changes-result", "SP800155Event3/fields-share-storage", "SP800155Event3: appending to the decoded RIM locator changed the decoded platform-certificate locator")
			}
		}
	}
	k := []int{16, 17, 18, 20, 36, len(full) - 1}[r.Intn(6, "inner-cut-at")]
	if k >= len(full) || k < 16 {
		return
	}
	data := full[:k]
	framed := append([]byte{byte(len(data)), byte(len(data) >> 8), byte(len(data) >> 16), byte(len(data) >> 24)}, data...)
	var ed eventlog.TCGEventData
	err = ed.Unmarshal(bytes.NewReader(framed))
	outcome := "refused"
	if err == nil {
		outcome = "accepted"
	}
	r.Eval(fmt.Sprintf("TCGEventData|inner-cut@%d|%s", k, outcome), true)
	if err == nil {
		r.Fail("truncation-accepted", "TCGEventData/inner-cut", "TCGEventData: event data of %d bytes carrying the SP800-155 Event3 signature and only %d of %d payload bytes was accepted (as %T)", k, k-16, len(full)-16, ed.Event)
	}
	r.Probe("inner-cut")
}

// efiGUIDBytes is the EFI_GUID byte order of a textual GUID, written down from the UEFI
// specification (first three fields little endian), independently of the code under test.
func efiGUIDBytes(g uuid.UUID) []byte {
	return []byte{g[3], g[2], g[1], g[0], g[5], g[4], g[7], g[6], g[8], g[9], g[10], g[11], g[12], g[13], g[14], g[15]}
}

func le(n int, v uint64) []byte {
	out := make([]byte, n)
	for i := range out {
		out[i] = byte(v >> (8 * i))
	}
	return out
}

// c18Hob: the PI hand-off block encoders (`WriteTo(io.Writer)`) under the writer seam. The
// reference encodings follow the PI specification's EFI_HOB_* layouts: generic header {type u16,
// length u16, reserved u32 = 0}; PHIT = header + version u32 + boot mode u32 + five u64
// addresses (56 bytes); resource descriptor = header + owner GUID + type u32 + attribute u32 +
// start u64 + length u64 (48 bytes); GUID extension = header + GUID + data, 8-byte aligned,
// whose length field is its size - so a block of 64 KiB or more does not exist.
func c18Hob(r *core.Run) {
	u64 := func(l string) uint64 { return uint64(r.Intn(1<<30, l))<<34 | uint64(r.Intn(1<<30, l+"-lo")) }
	var write func(io.Writer) (int64, error)
	var ref []byte // nil: the value must be refused
	name := ""
	switch r.Intn(5, "hob-kind") {
	case 0:
		name = "EFIHOBGenericHeader"
		h := oabi.EFIHOBGenericHeader{HobType: uint16(r.Intn(1<<16, "hob-type")), HobLength: uint16(r.Intn(1<<16, "hob-len"))}
		write, ref = h.WriteTo, append(append(le(2, uint64(h.HobType)), le(2, uint64(h.HobLength))...), 0, 0, 0, 0)
	case 1:
		name = "EFIHOBHandoffInfoTable"
		t := oabi.EFIHOBHandoffInfoTable{Header: oabi.EFIHOBGenericHeader{HobType: oabi.EFIHOBTypeHandoff, HobLength: oabi.SizeOfEFIHOBHandoffInfoTable},
			Version: uint32(r.Intn(1<<30, "phit-version")), BootMode: oabi.EFIBootMode(r.Intn(1<<30, "phit-boot")), EfiMemoryTop: oabi.EFIPhysicalAddress(u64("top")), EfiMemoryBottom: oabi.EFIPhysicalAddress(u64("bottom")),
			EfiFreeMemoryTop: oabi.EFIPhysicalAddress(u64("ftop")), EfiFreeMemoryBottom: oabi.EFIPhysicalAddress(u64("fbottom")), EfiEndOfHobList: oabi.EFIPhysicalAddress(u64("end"))}
		write = t.WriteTo
		ref = append(append(le(2, 1), le(2, 56)...), 0, 0, 0, 0)
		for _, f := range [][]byte{le(4, uint64(t.Version)), le(4, uint64(t.BootMode)), le(8, uint64(t.EfiMemoryTop)), le(8, uint64(t.EfiMemoryBottom)), le(8, uint64(t.EfiFreeMemoryTop)), le(8, uint64(t.EfiFreeMemoryBottom)), le(8, uint64(t.EfiEndOfHobList))} {
			ref = append(ref, f...)
		}
	case 2:
		name = "EFIHOBResourceDescriptor"
		g := uuid.UUID{byte(r.Intn(256, "owner0")), 2, 3, 4, 5, 6, 7, 8, 9, 10, 11, 12, 13, 14, 15, byte(r.Intn(256, "owner15"))}
		d := oabi.EFIHOBResourceDescriptor{Header: oabi.EFIHOBGenericHeader{HobType: oabi.EFIHOBTypeResourceDescriptor, HobLength: oabi.SizeofEFIHOBResourceDescriptor}, Owner: oabi.FromUUID(g),
			ResourceType: oabi.EFIResourceType([]int{0, 7, r.Intn(1<<30, "res-type")}[r.Intn(3, "res-type-kind")]), ResourceAttribute: oabi.EFIResourceAttributeType(r.Intn(1<<30, "res-attr")), PhysicalStart: oabi.EFIPhysicalAddress(u64("start")), ResourceLength: u64("length")}
		write = d.WriteTo
		ref = append(append(le(2, 3), le(2, 48)...), 0, 0, 0, 0)
		for _, f := range [][]byte{efiGUIDBytes(g), le(4, uint64(d.ResourceType)), le(4, uint64(d.ResourceAttribute)), le(8, uint64(d.PhysicalStart)), le(8, d.ResourceLength)} {
			ref = append(ref, f...)
		}
	default:
		name = "EFIHOBGUID"
		g := uuid.UUID{0xde, 0xad, byte(r.Intn(256, "guid2")), 4, 5, 6, 7, 8, 9, 10, 11, 12, 13, 14, 15, byte(r.Intn(256, "guid15"))}
		var n int
		switch r.Intn(3, "guid-hob-size") {
		case 0:
			n = r.Intn(70, "guid-hob-data")
		case 1:
			n = oabi.MaxGUIDHOBDataSize - 24 + r.Intn(48, "guid-hob-edge") // around the largest block the 16-bit length field can describe
		default:
			n = 1<<16 - 32 + 8*r.Intn(1200, "guid-hob-big") // up to and beyond 64 KiB
		}
		// the payload is a window on a larger buffer whose bytes go on after it (an event cut out
		// of a blob that holds several)
		back := make([]byte, n+16)
		for i := range back {
			back[i] = byte(i*7+n) | 1
		}
		data := back[:n]
		padded := append([]byte(nil), data...)
		for len(padded)%8 != 0 {
			padded = append(padded, 0)
		}
		fits := 24+len(padded) < 1<<16
		if fits {
			ref = append(append(append(le(2, 4), le(2, uint64(24+len(padded)))...), 0, 0, 0, 0), append(efiGUIDBytes(g), padded...)...)
		}
		if r.Bool("hand-built-guid-hob") {
			// a block put together by hand: the length field is what fits in 16 bits of the true size
			h := oabi.EFIHOBGUID{Header: oabi.EFIHOBGenericHeader{HobType: oabi.EFIHOBTypeGUIDExtension, HobLength: uint16(24 + len(padded))}, GUID: oabi.FromUUID(g), Data: padded}
			switch r.Intn(6, "guid-hob-slip") {
			case 0:
				h.Header.HobLength += 8
				ref = nil
			case 1:
				h.Header.HobType = oabi.EFIHOBTypeResourceDescriptor
				ref = nil
			}
			name, write = "EFIHOBGUID/hand-built", h.WriteTo
		} else {
			h, err := oabi.CreateEFIHOBGUID(g, data)
			if err != nil {
				r.Eval(fmt.Sprintf("EFIHOBGUID|create-refused|fits=%v", fits), true)
				if fits {
					r.Fail("chunking-changes-result", "EFIHOBGUID/refused", "CreateEFIHOBGUID refuses %d bytes of data, which fit a GUID block (%d bytes in all): %v", n, 24+len(padded), err)
				}
				return
			}
			write = h.WriteTo
		}
	}
	w := &SimWriter{failAt: -1}
	nw, err := write(w)
	r.Eval(fmt.Sprintf("%s|write|%v|%d", name, err == nil, len(w.buf)/4096), ref == nil)
	switch {
	case ref == nil && err == nil:
		r.Fail("truncation-accepted", name+"/out-of-range", "%s: a block whose type or 16-bit length field does not describe it (%d bytes written, length field %d) was encoded", name, len(w.buf), int(w.buf[2])|int(w.buf[3])<<8)
		return
	case ref == nil:
		return
	case err != nil:
		r.Fail("chunking-changes-result", name+"/refused", "%s: an in-range block of %d bytes is refused: %v", name, len(ref), err)
		return
	case !bytes.Equal(w.buf, ref):
		r.Fail("chunking-changes-result", name+"/layout", "%s: the encoding (%d bytes) differs from the PI specification layout (%d bytes) at offset %d", name, len(w.buf), len(ref), firstDiff(w.buf, ref))
		return
	case nw != int64(len(ref)):
		r.Fail("write-error-swallowed", name+"/count", "%s: WriteTo reports %d bytes, %d were written", name, nw, len(ref))
	}
	var offs []int
	if len(ref) <= 700 {
		for n := 0; n < len(ref); n++ {
			offs = append(offs, n)
		}
	} else {
		for i := 0; i < 24; i++ {
			offs = append(offs, i)
		}
		for i := 0; i < 40; i++ {
			offs = append(offs, r.Intn(len(ref), "hob-woff"))
		}
	}
	for _, n := range offs {
		fw := &SimWriter{failAt: n, short: n%2 == 0}
		_, err := write(fw)
		r.Faults["write-fail-at"]++
		r.Eval(fmt.Sprintf("%s|write-fail|%s|%v", name, hobPos(n, len(ref)), err != nil), true)
		if err == nil {
			r.Fail("write-error-swallowed", name, "%s: WriteTo returned nil although the writer failed at offset %d of %d (wrote %d bytes)", name, n, len(ref), len(fw.buf))
		}
	}
	r.Probe("pi-hob-encoder")
}

func hobPos(n, total int) string {
	switch {
	case n < 8:
		return "header"
	case n < 24:
		return "fixed-part"
	case n > total-8:
		return "tail"
	}
	return "middle"
}

// c18DigestAlgs: digest records written down byte by byte — a TPM algorithm id (known to the tools
// or not) followed by as many bytes as that algorithm's digests have. Whatever the decoder
// accepts must come back out of the encoder unchanged; what it does not know it must refuse.
func c18DigestAlgs(r *core.Run) {
	algs := []struct {
		id   uint16
		size int
	}{{0x0004, 20}, {0x000B, 32}, {0x000C, 48}, {0x000D, 64}, {0x0012, 32}, {0x0027, 32}, {0x0028, 48}, {0x0029, 64}, {0x0000, 0}, {0x0010, 0}}
	a := algs[r.Intn(len(algs), "digest-alg")]
	raw := append(le(2, uint64(a.id)), bytes.Repeat([]byte{byte(0x30 + r.Intn(9, "digest-fill"))}, a.size+8)...) // eight more bytes follow in the stream
	var d eventlog.TaggedDigest
	rd := bytes.NewReader(raw)
	err := d.Unmarshal(rd)
	used := len(raw) - rd.Len()
	r.Eval(fmt.Sprintf("TaggedDigest|alg=%#04x|accepted=%v", a.id, err == nil), true)
	if err != nil {
		return
	}
	var out bytes.Buffer
	if merr := d.Marshal(&out); merr != nil {
		r.Fail("truncation-accepted", "TaggedDigest/decoder-knows-more-than-encoder", "TaggedDigest: a record with algorithm id %#04x is decoded (%d bytes taken) but the decoded value cannot be encoded: %v", a.id, used, merr)
		return
	}
	if !bytes.Equal(out.Bytes(), raw[:used]) {
		r.Fail("chunking-changes-result", "TaggedDigest/roundtrip-of-accepted-bytes", "TaggedDigest: the %d bytes accepted for algorithm id %#04x re-encode to %d other bytes", used, a.id, out.Len())
	}
}

// c18CStrRecords: size-prefixed strings written down byte by byte, well-formed or not (a declared
// size of zero, a missing terminator, terminators inside). Accepted bytes re-encode to themselves.
func c18CStrRecords(r *core.Run) {
	recs := [][]byte{{0}, {1, 0}, {1, 'A'}, {2, 'A', 0}, {2, 0, 0}, {3, 'A', 0, 0}, {3, 'A', 0, 'B'}, {2, 'A', 'B'}, {4, 'A', 'B', 'C', 0}}
	raw := append(append([]byte(nil), recs[r.Intn(len(recs), "cstr-record")]...), 0x77, 0x77) // two more bytes follow in the stream
	var v eventlog.ByteSizedCStr
	rd := bytes.NewReader(raw)
	err := v.Unmarshal(rd)
	used := len(raw) - rd.Len()
	r.Eval(fmt.Sprintf("ByteSizedCStr|record=%x|accepted=%v", raw[:len(raw)-2], err == nil), true)
	if err != nil {
		return
	}
	var out bytes.Buffer
	if merr := v.Marshal(&out); merr != nil {
		r.Fail("truncation-accepted", "ByteSizedCStr/accepted-but-not-encodable", "ByteSizedCStr: the record % x is decoded (%d bytes taken, value %q) but the value cannot be encoded: %v", raw[:len(raw)-2], used, v.Data, merr)
		return
	}
	if !bytes.Equal(out.Bytes(), raw[:used]) {
		r.Fail("chunking-changes-result", "ByteSizedCStr/roundtrip-of-accepted-bytes", "ByteSizedCStr: the accepted record % x (value %q) re-encodes to % x", raw[:used], v.Data, out.Bytes())
	}
}

func firstDiff(a, b []byte) int {
	for i := 0; i < len(a) && i < len(b); i++ {
		if a[i] != b[i] {
			return i
		}
	}
	if len(a) < len(b) {
		return len(a)
	}
	return len(b)
}

func runC18(r *core.Run) {
	strLens, badDigests = nil, 0
	defer func() { strLens, badDigests = nil, 0 }()
	if r.Chance(6, "hob-boundary?") {
		c18HobBoundary(r)
		strLens, badDigests = nil, 0
	}
	if r.Chance(10, "inner-cut?") {
		c18InnerCut(r)
		strLens, badDigests = nil, 0
	}
	if r.Chance(15, "pi-hob?") {
		c18Hob(r)
	}
	if r.Chance(10, "digest-algs?") {
		c18DigestAlgs(r)
	}
	if r.Chance(10, "cstr-records?") {
		c18CStrRecords(r)
	}
	// the value under test and a factory for empty values of its type
	var v streamable
	var fresh, gen func() streamable
	name := ""
	switch r.Intn(8, "codec") {
	case 0, 1, 2:
		name, gen, fresh = "CryptoAgileLog", func() streamable { return genLog(r) }, func() streamable { return &eventlog.CryptoAgileLog{} }
	case 3:
		name, gen, fresh = "TCGPCREvent2", func() streamable { return genEvent2(r) }, func() streamable { return &eventlog.TCGPCREvent2{} }
	case 4:
		name, gen, fresh = "TCGEventData", func() streamable { ed := genEventData(r); return &ed }, func() streamable { return &eventlog.TCGEventData{} }
	case 5:
		name, gen, fresh = "TaggedDigest", func() streamable { return genDigest(r) }, func() streamable { return &eventlog.TaggedDigest{} }
	case 6:
		if r.Bool("cstr") {
			name, gen, fresh = "ByteSizedCStr", func() streamable { return &eventlog.ByteSizedCStr{Data: genStr(r, "s")} }, func() streamable { return &eventlog.ByteSizedCStr{} }
		} else {
			name, gen, fresh = "Uint32SizedArray", func() streamable { return &eventlog.Uint32SizedArray{Data: genBytes(r, 60, "arr")} }, func() streamable { return &eventlog.Uint32SizedArray{} }
		}
	default:
		name, gen, fresh = "EfiGUID", func() streamable { return &eventlog.EfiGUID{UUID: uuid.UUID{9, 8, 7, byte(r.Intn(256, "g"))}} }, func() streamable { return &eventlog.EfiGUID{} }
	}
	v = gen()
	outOfRange, longest := badDigests > 0, 0
	for _, n := range strLens {
		if n > 254 {
			outOfRange = true
		}
		if n > longest {
			longest = n
		}
	}
	full, err := enc(v)
	if err != nil {
		// an out-of-range field (a string that does not fit its one-byte size) is refused: fine
		if outOfRange {
			r.Probe("out-of-range-refused")
			r.Eval(name+"|out-of-range|refused", true)
			return
		}
		r.HarnessErr = fmt.Sprintf("%s: generated value does not encode: %v", name, err)
		return
	}
	if outOfRange {
		r.Fail("truncation-accepted", name+"/out-of-range", "%s: a value with an out-of-range field (longest string %d characters for a one-byte size; %d digests of a length other than their algorithm's) was encoded instead of refused", name, longest, badDigests)
	}
	r.Eventf("codec %s, encoding %d bytes", name, len(full))
	decode := func(rd io.Reader) (streamable, error) {
		x := fresh()
		err := x.Unmarshal(rd)
		return x, err
	}
	// baseline: the decoder's own single-shot behaviour
	base, baseErr := decode(bytes.NewReader(full))
	if baseErr != nil {
		r.Fail("chunking-changes-result", name+"/roundtrip", "%s: decoding its own encoding from a single-shot reader fails: %v", name, baseErr)
		return
	}
	if back, err := enc(base); err != nil || !bytes.Equal(back, full) {
		r.Fail("truncation-accepted", name+"/roundtrip", "%s: decode(encode(v)) does not re-encode to encode(v) (%v)", name, err)
	}
	// two callers at once: while this value is being decoded from a reader that delivers it in
	// pieces (or encoded into a writer), ANOTHER value of the same type is encoded and decoded in
	// between. The codecs share nothing, so neither notices the other.
	if r.Chance(40, "overlapping-operations?") {
		save, saveBad := strLens, badDigests
		other := gen()
		strLens, badDigests = save, saveBad
		if ob, oerr := enc(other); oerr == nil {
			disturbed := false
			meanwhile := func() {
				y := fresh()
				if err := y.Unmarshal(bytes.NewReader(ob)); err != nil {
					disturbed = true
					return
				}
				if back, err := enc(y); err != nil || !bytes.Equal(back, ob) {
					disturbed = true
				}
			}
			sr := &SimReader{data: full, end: len(full), errAt: -1, mode: 1, r: r, meanwhile: meanwhile}
			got, err := decode(sr)
			back, eerr := enc(got)
			r.Eval(name+"|overlapping-decode", true)
			if err != nil || eerr != nil || !bytes.Equal(back, full) || disturbed {
				r.Fail("chunking-changes-result", name+"/overlapping-operations", "%s: decoding from a reader that delivers byte by byte, with another value of the type encoded and decoded between the reads, gives another value (or disturbs the other operation: %v) (%v, %v)", name, disturbed, err, eerr)
			}
			sw := &SimWriter{failAt: -1, meanwhile: meanwhile}
			werr := v.Marshal(sw)
			if werr != nil || !bytes.Equal(sw.buf, full) || disturbed {
				r.Fail("chunking-changes-result", name+"/overlapping-operations", "%s: encoding into a writer during whose writes another value of the type is encoded and decoded gives other bytes (or disturbs the other operation: %v) (%v)", name, disturbed, werr)
			}
			r.Probe("overlapping-operations")
		}
	}
	// the decoded value is the caller's: it does not change when the buffer it was decoded from is
	// reused afterwards
	{
		src := append([]byte(nil), full...)
		x := fresh()
		if err := x.Unmarshal(bytes.NewBuffer(src)); err == nil {
			for i := range src {
				src[i] = 0xEE
			}
			if back, err := enc(x); err != nil || !bytes.Equal(back, full) {
				r.Fail("chunking-changes-result", name+"/source-reused", "%s: the decoded value changed when the buffer it was decoded from was overwritten afterwards (%v)", name, err)
			}
		}
		r.Eval(name+"|source-reused", true)
	}
	// a long-lived destination: decoding into a value that already holds another decoded record
	// gives what decoding into a fresh one gives
	if r.Chance(50, "reused-destination?") {
		save, saveBad := strLens, badDigests
		prior := gen()
		strLens, badDigests = save, saveBad
		if pb, perr := enc(prior); perr == nil {
			dst := fresh()
			if err := dst.Unmarshal(bytes.NewReader(pb)); err == nil {
				err := dst.Unmarshal(bytes.NewReader(full))
				back, eerr := enc(dst)
				r.Eval(name+"|reused-destination", true)
				if err != nil || eerr != nil || !bytes.Equal(back, full) {
					r.Fail("chunking-changes-result", name+"/reused-destination", "%s: decoding into a destination that held another record (%d bytes) gives another value than decoding into a fresh one (%v, %v)", name, len(pb), err, eerr)
				}
				r.Probe("reused-destination")
			}
		}
	}
	posClass := func(n int) string {
		switch {
		case n == 0:
			return "start"
		case n == len(full):
			return "end"
		case n < 8:
			return "head"
		case n > len(full)-8:
			return "tail"
		}
		return "middle"
	}
	// size-exactness: a bounded decoder consumes exactly its own encoding and leaves what follows
	if name != "CryptoAgileLog" {
		trailer := []byte("NEXT-RECORD-BYTES")
		for _, mode := range []int{0, 2} {
			sr := &SimReader{data: append(append([]byte(nil), full...), trailer...), end: len(full) + len(trailer), errAt: -1, mode: mode, r: r}
			if _, err := decode(sr); err != nil {
				r.Fail("chunking-changes-result", name+"/with-trailer", "%s: decoding fails when more data follows the encoding: %v", name, err)
			}
			r.Eval(fmt.Sprintf("%s|trailer|mode%d", name, mode), true)
			if sr.pos != len(full) {
				r.Fail("truncation-accepted", name+"/over-read", "%s: the decoder consumed %d bytes of the stream for an encoding of %d bytes: the next record's bytes are gone", name, sr.pos, len(full))
			}
		}
	}
	// (a) chunking invariance
	for _, mode := range []int{1, 2, 3} {
		sr := &SimReader{data: full, end: len(full), errAt: -1, mode: mode, r: r}
		got, err := decode(sr)
		r.Faults["short-read"]++
		outcome := "ok"
		if err != nil {
			outcome = "error"
		}
		r.Eval(fmt.Sprintf("%s|chunk-mode-%d|%s", name, mode, outcome), true)
		r.Eventf("chunked decode mode %d -> %s", mode, outcome)
		if err != nil {
			r.Fail("chunking-changes-result", name, "%s: a valid encoding (%d bytes) delivered in chunks (mode %d) is rejected: %v", name, len(full), mode, err)
			continue
		}
		if back, eerr := enc(got); eerr != nil || !bytes.Equal(back, full) {
			r.Fail("chunking-changes-result", name+"/value", "%s: a valid encoding delivered in chunks (mode %d) decodes to a different value", name, mode)
		}
	}
	// (b) every strict prefix
	var cuts []int
	if len(full) <= 700 {
		for n := 0; n < len(full); n++ {
			cuts = append(cuts, n)
		}
	} else {
		for i := 0; i < 96; i++ {
			cuts = append(cuts, r.Intn(len(full), "cut"))
		}
	}
	for _, n := range cuts {
		mode := 0
		if r.Tier == "thorough" || n%3 == 0 {
			mode = []int{0, 1, 3}[n%3]
		}
		sr := &SimReader{data: full, end: n, errAt: -1, mode: mode, r: r}
		got, err := decode(sr)
		r.Faults["eof-at"]++
		outcome := "error"
		if err == nil {
			outcome = "accepted"
		}
		r.Eval(fmt.Sprintf("%s|eof|%s|%s", name, posClass(n), outcome), true)
		if err != nil {
			continue
		}
		back, eerr := enc(got)
		trimmed := bytes.TrimRight(full[:n], "\x00")
		if eerr != nil || !(bytes.Equal(back, full[:n]) || (bytes.HasPrefix(full[:n], back) && len(back) >= len(trimmed))) {
			r.Fail("truncation-accepted", name, "%s: the %d-byte prefix of a %d-byte encoding is accepted but does not re-encode to itself (re-encodes to %d bytes, err %v): the cut was silently completed or shortened", name, n, len(full), len(back), eerr)
		}
		r.Probe("prefix-accepted-at-boundary")
	}
	// (c) injected read errors are returned
	for i := 0; i < 6; i++ {
		// a bounded decoder never reads past its own encoding, so only the log (which reads until
		// EOF) can be expected to see an error placed right after the last byte
		lim := len(full)
		if name == "CryptoAgileLog" {
			lim++
		}
		if lim == 0 {
			break
		}
		n := r.Intn(lim, "err-at")
		sr := &SimReader{data: full, end: len(full), errAt: n, mode: []int{0, 2}[r.Intn(2, "err-mode")], r: r}
		_, err := decode(sr)
		r.Faults["read-err-at"]++
		r.Eval(fmt.Sprintf("%s|read-err|%s|%v", name, posClass(n), err != nil), true)
		if err == nil {
			r.Fail("read-error-swallowed", name, "%s: a read error injected at offset %d of %d was swallowed (decode returned nil)", name, n, len(full))
		}
	}
	// (d) failing writers
	var offs []int
	if len(full) <= 700 {
		for n := 0; n < len(full); n++ {
			offs = append(offs, n)
		}
	} else {
		for i := 0; i < 96; i++ {
			offs = append(offs, r.Intn(len(full), "woff"))
		}
	}
	for _, n := range offs {
		w := &SimWriter{failAt: n, short: n%2 == 0}
		err := v.Marshal(w)
		r.Faults["write-fail-at"]++
		r.Eval(fmt.Sprintf("%s|write-fail|%s|%v", name, posClass(n), err != nil), true)
		if err == nil {
			r.Fail("write-error-swallowed", name, "%s: Marshal returned nil although the writer failed at offset %d of %d (wrote %d bytes)", name, n, len(full), len(w.buf))
		}
	}
	w := &SimWriter{failAt: -1}
	if err := v.Marshal(w); err != nil || !bytes.Equal(w.buf, full) {
		r.Fail("write-error-swallowed", name+"/exact", "%s: Marshal into a healthy writer returned %v and wrote %d of %d bytes", name, err, len(w.buf), len(full))
	}
	r.State(name)
	r.Sample = map[string]any{"codec": name, "encoding_bytes": len(full), "prefixes_tried": len(cuts), "write_offsets_tried": len(offs)}
}

// NewSimReader returns a reader over data under chunk mode (0 whole, 1 one byte at a time,
// 2 random chunks, 3 random chunks with the last bytes returned together with io.EOF).
func NewSimReader(r *core.Run, data []byte, mode int) *SimReader {
	return &SimReader{data: data, end: len(data), errAt: -1, mode: mode, r: r}
}
