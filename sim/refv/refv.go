// Package refv is the independent reference verifier used as an oracle: it is written directly
// on crypto/rsa and crypto/x509 primitives and never calls the repository's verify package. It
// implements the weakest reading of "authentic": PSS/SHA-256 signature by the embedded
// certificate's key over exactly the carried payload, certificate issued by (or equal to) one of
// the caller's roots, verification time inside the certificate's validity.
package refv

import (
	"bytes"
	"crypto"
	"crypto/rsa"
	"crypto/sha256"
	"crypto/x509"
	"encoding/pem"
	"fmt"
	"time"

	epb "github.com/google/gce-tcb-verifier/proto/endorsement"
	"google.golang.org/protobuf/proto"
)

// Verdict says which authenticity conjuncts hold.
type Verdict struct {
	Parses      bool
	SigOK       bool
	Chained     bool
	InValidity  bool
	Golden      *epb.VMGoldenMeasurement
	Cert        *x509.Certificate
	ParseDetail string
}

// OK is true when every conjunct holds.
func (v Verdict) OK() bool { return v.Parses && v.SigOK && v.Chained && v.InValidity }

// FirstFailure names the first conjunct that does not hold, as a violation class suffix.
func (v Verdict) FirstFailure() string {
	switch {
	case !v.Parses:
		return "unparseable"
	case !v.SigOK:
		return "bad-signature"
	case !v.Chained:
		return "unchained"
	case !v.InValidity:
		return "outside-validity"
	}
	return ""
}

// CheckBytes evaluates serialized endorsement bytes.
func CheckBytes(e []byte, roots []*x509.Certificate, t time.Time) Verdict {
	var m epb.VMLaunchEndorsement
	if err := proto.Unmarshal(e, &m); err != nil {
		return Verdict{ParseDetail: err.Error()}
	}
	return Check(m.GetSerializedUefiGolden(), m.GetSignature(), roots, t)
}

// Check evaluates payload + signature against roots at time t.
func Check(payload, sig []byte, roots []*x509.Certificate, t time.Time) Verdict {
	var v Verdict
	g := &epb.VMGoldenMeasurement{}
	if err := proto.Unmarshal(payload, g); err != nil {
		v.ParseDetail = err.Error()
		return v
	}
	c, err := x509.ParseCertificate(g.GetCert())
	if err != nil {
		v.ParseDetail = "certificate: " + err.Error()
		return v
	}
	v.Parses, v.Golden, v.Cert = true, g, c
	if pub, ok := c.PublicKey.(*rsa.PublicKey); ok {
		d := sha256.Sum256(payload)
		v.SigOK = rsa.VerifyPSS(pub, crypto.SHA256, d[:], sig, &rsa.PSSOptions{SaltLength: rsa.PSSSaltLengthAuto, Hash: crypto.SHA256}) == nil
	}
	for _, r := range roots {
		if r == nil {
			continue
		}
		if bytes.Equal(r.Raw, c.Raw) {
			v.Chained = true
			break
		}
		if pub, ok := r.PublicKey.(*rsa.PublicKey); ok && verifyCertSig(c, pub) {
			v.Chained = true
			break
		}
	}
	v.InValidity = !t.Before(c.NotBefore) && !t.After(c.NotAfter)
	return v
}

// verifyCertSig checks cert's signature with pub, independent of issuer-name matching, CA bits
// or key usages (the weakest reading of "chains to").
func verifyCertSig(c *x509.Certificate, pub *rsa.PublicKey) bool {
	var h crypto.Hash
	pss := false
	switch c.SignatureAlgorithm {
	case x509.SHA256WithRSAPSS:
		h, pss = crypto.SHA256, true
	case x509.SHA384WithRSAPSS:
		h, pss = crypto.SHA384, true
	case x509.SHA512WithRSAPSS:
		h, pss = crypto.SHA512, true
	case x509.SHA256WithRSA:
		h = crypto.SHA256
	case x509.SHA384WithRSA:
		h = crypto.SHA384
	case x509.SHA512WithRSA:
		h = crypto.SHA512
	default:
		return false
	}
	hh := h.New()
	hh.Write(c.RawTBSCertificate)
	d := hh.Sum(nil)
	if pss {
		return rsa.VerifyPSS(pub, h, d, c.Signature, &rsa.PSSOptions{SaltLength: rsa.PSSSaltLengthEqualsHash}) == nil
	}
	return rsa.VerifyPKCS1v15(pub, h, d, c.Signature) == nil
}

// CertIssuedBy reports whether c's signature verifies under root's key.
func CertIssuedBy(c, root *x509.Certificate) bool {
	pub, ok := root.PublicKey.(*rsa.PublicKey)
	return ok && verifyCertSig(c, pub)
}

// ParsePEMCerts parses consecutive CERTIFICATE blocks.
func ParsePEMCerts(b []byte) ([]*x509.Certificate, error) {
	var out []*x509.Certificate
	rest := b
	for {
		var blk *pem.Block
		blk, rest = pem.Decode(rest)
		if blk == nil {
			break
		}
		if blk.Type != "CERTIFICATE" {
			return nil, fmt.Errorf("unexpected PEM block %q", blk.Type)
		}
		c, err := x509.ParseCertificate(blk.Bytes)
		if err != nil {
			return nil, err
		}
		out = append(out, c)
	}
	if len(out) == 0 {
		return nil, fmt.Errorf("no certificate in PEM data (%d bytes)", len(b))
	}
	return out, nil
}
