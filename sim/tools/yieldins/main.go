// Command yieldins rewrites Go source files in place, inserting a call to verifyield.Yield
// ("<file>:<line>") before every statement of every function body. It is applied to a scratch
// copy of the repository only (never to /repo): the C09 check builds its worker against that copy
// so the seeded scheduler can switch tasks between any two statements of the validator path.
package main

import (
	"fmt"
	"go/ast"
	"go/format"
	"go/parser"
	"go/token"
	"os"
	"path/filepath"
	"strconv"
)

const yieldPkg = "github.com/google/gce-tcb-verifier/verifyield"

func main() {
	if len(os.Args) < 3 {
		fmt.Fprintln(os.Stderr, "usage: yieldins <repo-copy-root> <file>...")
		os.Exit(2)
	}
	root := os.Args[1]
	// the yield package itself
	dir := filepath.Join(root, "verifyield")
	os.MkdirAll(dir, 0o755)
	os.WriteFile(filepath.Join(dir, "yield.go"), []byte(`// Package verifyield is the scheduling hook inserted by yieldins (scratch copies only).
package verifyield

// Hook, when set, is called at every yield point.
var Hook func(site string)

// Yield is a scheduling point.
func Yield(site string) {
	if h := Hook; h != nil {
		h(site)
	}
}
`), 0o644)
	total := 0
	for _, rel := range os.Args[2:] {
		n, err := instrument(filepath.Join(root, rel), rel)
		if err != nil {
			fmt.Fprintf(os.Stderr, "yieldins: %s: %v\n", rel, err)
			os.Exit(2)
		}
		total += n
	}
	fmt.Printf("yieldins: %d yield points inserted\n", total)
}

func instrument(path, rel string) (int, error) {
	fset := token.NewFileSet()
	f, err := parser.ParseFile(fset, path, nil, parser.ParseComments)
	if err != nil {
		return 0, err
	}
	count := 0
	call := func(pos token.Pos) ast.Stmt {
		count++
		site := rel + ":" + strconv.Itoa(fset.Position(pos).Line)
		return &ast.ExprStmt{X: &ast.CallExpr{
			Fun:  &ast.SelectorExpr{X: ast.NewIdent("verifyield"), Sel: ast.NewIdent("Yield")},
			Args: []ast.Expr{&ast.BasicLit{Kind: token.STRING, Value: strconv.Quote(site)}},
		}}
	}
	var rewrite func(list []ast.Stmt) []ast.Stmt
	rewrite = func(list []ast.Stmt) []ast.Stmt {
		var out []ast.Stmt
		for _, s := range list {
			if _, labeled := s.(*ast.LabeledStmt); !labeled {
				out = append(out, call(s.Pos()))
			}
			out = append(out, s)
		}
		return out
	}
	// the block of a switch/select holds clauses, not statements
	skip := map[*ast.BlockStmt]bool{}
	ast.Inspect(f, func(n ast.Node) bool {
		switch b := n.(type) {
		case *ast.SwitchStmt:
			skip[b.Body] = true
		case *ast.TypeSwitchStmt:
			skip[b.Body] = true
		case *ast.SelectStmt:
			skip[b.Body] = true
		}
		return true
	})
	ast.Inspect(f, func(n ast.Node) bool {
		switch b := n.(type) {
		case *ast.RangeStmt:
			// No yield points inside range loops: ranging over a Go map visits entries in a
			// runtime-random order, so the number of yields before a match would differ between
			// executions of the same trace and replay would break.
			return false
		case *ast.BlockStmt:
			if !skip[b] {
				b.List = rewrite(b.List)
			}
		case *ast.CaseClause:
			b.Body = rewrite(b.Body)
		case *ast.CommClause:
			b.Body = rewrite(b.Body)
		}
		return true
	})
	// import
	f.Decls = append([]ast.Decl{&ast.GenDecl{Tok: token.IMPORT, Specs: []ast.Spec{&ast.ImportSpec{Path: &ast.BasicLit{Kind: token.STRING, Value: strconv.Quote(yieldPkg)}}}}}, f.Decls...)
	out, err := os.Create(path)
	if err != nil {
		return 0, err
	}
	defer out.Close()
	// Comments are dropped on purpose: inserted nodes have no positions and free-floating comments
	// would be misplaced; the copy is only ever compiled.
	f.Comments = nil
	return count, format.Node(out, fset, f)
}
