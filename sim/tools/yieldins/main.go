// Command yieldins rewrites Go source files in place, inserting a call to verifyield.Yield
// ("<file>:<line>") before every statement of every function body. It is applied to a scratch
// copy of the repository only (never to /repo): the C09 check builds its worker against that copy
// so the seeded scheduler can switch tasks between any two statements of the validator path.
package main

import (
	"fmt"
	"go/ast"
	"go/format"
	"go/parser"
	"go/token"
	"os"
	"path/filepath"
	"strconv"
)

const yieldPkg = "github.com/google/gce-tcb-verifier/verifyield"

func main() {
	if len(os.Args) < 3 {
		fmt.Fprintln(os.Stderr, "usage: yieldins <repo-copy-root> <file>...")
		os.Exit(2)
	}
	root := os.Args[1]
	// the yield package itself
	dir := filepath.Join(root, "verifyield")
	os.MkdirAll(dir, 0o755)
	os.WriteFile(filepath.Join(dir, "yield.go"), []byte(`// Package verifyield is the scheduling hook inserted by yieldins (scratch copies only).
package verifyield

import "runtime"

// Hook, when set, is called at every yield point.
var Hook func(site string)

// BlockedHook, when set, is called when a lock the scheduler knows about could not be taken: the
// caller must not be resumed before somebody else has run.
var BlockedHook func(site string)

// Lock takes a sync.Mutex / sync.RWMutex without ever blocking a parked-goroutine scheduler: the
// task holding the lock may be parked at a yield point, so waiting for real would hang the run.
func Lock(try func() bool, lock func(), site string) {
	if Hook == nil {
		lock()
		return
	}
	for !try() {
		if b := BlockedHook; b != nil {
			b(site)
		} else {
			runtime.Gosched()
		}
	}
}

// Yield is a scheduling point.
func Yield(site string) {
	if h := Hook; h != nil {
		h(site)
	}
}
`), 0o644)
	total := 0
	for _, rel := range os.Args[2:] {
		n, err := instrument(filepath.Join(root, rel), rel)
		if err != nil {
			fmt.Fprintf(os.Stderr, "yieldins: %s: %v\n", rel, err)
			os.Exit(2)
		}
		total += n
	}
	fmt.Printf("yieldins: %d yield points inserted\n", total)
}

func instrument(path, rel string) (int, error) {
	fset := token.NewFileSet()
	f, err := parser.ParseFile(fset, path, nil, parser.ParseComments)
	if err != nil {
		return 0, err
	}
	count := 0
	locks := 0
	call := func(pos token.Pos) ast.Stmt {
		count++
		site := rel + ":" + strconv.Itoa(fset.Position(pos).Line)
		return &ast.ExprStmt{X: &ast.CallExpr{
			Fun:  &ast.SelectorExpr{X: ast.NewIdent("verifyield"), Sel: ast.NewIdent("Yield")},
			Args: []ast.Expr{&ast.BasicLit{Kind: token.STRING, Value: strconv.Quote(site)}},
		}}
	}
	// X.Lock() / X.RLock() as a statement becomes verifyield.Lock(X.TryLock, X.Lock, site): a task
	// that is parked while holding a mutex must not make another task block for real. (A receiver
	// without a Try method fails to compile; build.sh then retries with VERIF_YIELD_NOLOCKS=1.)
	lockCall := func(s ast.Stmt) ast.Stmt {
		if os.Getenv("VERIF_YIELD_NOLOCKS") != "" {
			return s
		}
		es, ok := s.(*ast.ExprStmt)
		if !ok {
			return s
		}
		ce, ok := es.X.(*ast.CallExpr)
		if !ok || len(ce.Args) != 0 {
			return s
		}
		sel, ok := ce.Fun.(*ast.SelectorExpr)
		if !ok || (sel.Sel.Name != "Lock" && sel.Sel.Name != "RLock") {
			return s
		}
		locks++
		site := rel + ":" + strconv.Itoa(fset.Position(s.Pos()).Line)
		return &ast.ExprStmt{X: &ast.CallExpr{
			Fun: &ast.SelectorExpr{X: ast.NewIdent("verifyield"), Sel: ast.NewIdent("Lock")},
			Args: []ast.Expr{
				&ast.SelectorExpr{X: sel.X, Sel: ast.NewIdent("Try" + sel.Sel.Name)},
				&ast.SelectorExpr{X: sel.X, Sel: ast.NewIdent(sel.Sel.Name)},
				&ast.BasicLit{Kind: token.STRING, Value: strconv.Quote(site)},
			},
		}}
	}
	var rewrite func(list []ast.Stmt) []ast.Stmt
	rewrite = func(list []ast.Stmt) []ast.Stmt {
		var out []ast.Stmt
		for _, s := range list {
			if _, labeled := s.(*ast.LabeledStmt); !labeled {
				out = append(out, call(s.Pos()))
			}
			out = append(out, s)
		}
		return out
	}
	// lock calls are rewritten everywhere, also inside range bodies
	relock := func(list []ast.Stmt) {
		for i, s := range list {
			list[i] = lockCall(s)
		}
	}
	ast.Inspect(f, func(n ast.Node) bool {
		switch b := n.(type) {
		case *ast.BlockStmt:
			relock(b.List)
		case *ast.CaseClause:
			relock(b.Body)
		case *ast.CommClause:
			relock(b.Body)
		}
		return true
	})
	if locks > 0 {
		fmt.Fprintf(os.Stderr, "yieldins: %s: %d lock calls rewritten\n", rel, locks)
	}
	// the block of a switch/select holds clauses, not statements
	skip := map[*ast.BlockStmt]bool{}
	ast.Inspect(f, func(n ast.Node) bool {
		switch b := n.(type) {
		case *ast.SwitchStmt:
			skip[b.Body] = true
		case *ast.TypeSwitchStmt:
			skip[b.Body] = true
		case *ast.SelectStmt:
			skip[b.Body] = true
		}
		return true
	})
	ast.Inspect(f, func(n ast.Node) bool {
		switch b := n.(type) {
		case *ast.RangeStmt:
			// No yield points inside range loops: ranging over a Go map visits entries in a
			// runtime-random order, so the number of yields before a match would differ between
			// executions of the same trace and replay would break.
			return false
		case *ast.BlockStmt:
			if !skip[b] {
				b.List = rewrite(b.List)
			}
		case *ast.CaseClause:
			b.Body = rewrite(b.Body)
		case *ast.CommClause:
			b.Body = rewrite(b.Body)
		}
		return true
	})
	// import
	f.Decls = append([]ast.Decl{&ast.GenDecl{Tok: token.IMPORT, Specs: []ast.Spec{&ast.ImportSpec{Path: &ast.BasicLit{Kind: token.STRING, Value: strconv.Quote(yieldPkg)}}}}}, f.Decls...)
	out, err := os.Create(path)
	if err != nil {
		return 0, err
	}
	defer out.Close()
	// Comments are dropped on purpose: inserted nodes have no positions and free-floating comments
	// would be misplaced; the copy is only ever compiled.
	f.Comments = nil
	return count, format.Node(out, fset, f)
}
