// Package orch is the batch orchestrator: it forks worker processes, merges their summaries,
// minimises and re-confirms violations in fresh processes, prints the verdict lines and writes
// the evidence file. It never executes a check in-process.
package orch

import (
	"context"
	"encoding/json"
	"fmt"
	"os"
	"os/exec"
	"path/filepath"
	"sort"
	"strconv"
	"strings"
	"sync"
	"time"

	"verifsim/core"
)

// Config locates things.
type Config struct {
	VerifDir string // /verif
	BinDir   string // /verif/bin
}

func (c Config) known() string { return filepath.Join(c.VerifDir, "known_findings.json") }

// workerCmd returns the command line prefix that runs sub-commands for a property.
func (c Config) workerCmd(prop string) []string {
	if prop == "C20" {
		return []string{filepath.Join(c.BinDir, "worldk.test"), "-test.run=^TestWorker$", "-test.timeout=0"}
	}
	if prop == "C09" {
		// a test binary: its wall-clock scenario needs testing/synctest
		return []string{filepath.Join(c.BinDir, "verifsim-c09"), "-test.run=^TestWorker$", "-test.timeout=0"}
	}
	return []string{filepath.Join(c.BinDir, "verifsim")}
}

func envInt(name string, def int) int {
	if v := os.Getenv(name); v != "" {
		if n, err := strconv.Atoi(v); err == nil {
			return n
		}
	}
	return def
}

func (c Config) run(prop string, extraEnv []string, args ...string) ([]byte, []byte, int) {
	return c.runFor(0, prop, extraEnv, args...)
}

// runFor is run with a real-time bound: a worker still alive after it is killed and reported as
// harness trouble (exit 2).
func (c Config) runFor(limit time.Duration, prop string, extraEnv []string, args ...string) ([]byte, []byte, int) {
	w := c.workerCmd(prop)
	ctx := context.Background()
	if limit > 0 {
		var cancel context.CancelFunc
		ctx, cancel = context.WithTimeout(ctx, limit)
		defer cancel()
	}
	cmd := exec.CommandContext(ctx, w[0], append(w[1:], args...)...)
	// every worker-binary process (worker, shrink, replay, context) runs on one P unless told
	// otherwise: what a worker found is confirmed under the conditions it was found in
	cmd.Env = append(append(os.Environ(), "GOMAXPROCS="+strconv.Itoa(envInt("VERIF_WORKER_PROCS", 1))), extraEnv...)
	var so, se strings.Builder
	cmd.Stdout, cmd.Stderr = &so, &se
	err := cmd.Run()
	code := 0
	if err != nil {
		if ctx.Err() != nil {
			code = 2
			se.WriteString(fmt.Sprintf("\nwatchdog: worker killed after %v", limit))
		} else if ee, ok := err.(*exec.ExitError); ok {
			code = ee.ExitCode()
		} else {
			code = 2
			se.WriteString(err.Error())
		}
	}
	return []byte(so.String()), []byte(se.String()), code
}

// Check runs one batch and returns the process exit code.
func Check(cfg Config, prop, tier string) int {
	start := time.Now()
	seed := uint64(envInt("VERIF_SEED", 1))
	workers := envInt("VERIF_WORKERS", 16)
	tmp, err := os.MkdirTemp("", "verifsim-"+prop+"-")
	if err != nil {
		fmt.Fprintln(os.Stderr, err)
		return 2
	}
	defer os.RemoveAll(tmp)

	descPath := filepath.Join(tmp, "desc.json")
	_, se, code := cfg.run(prop, nil, "describe", "--prop", prop, "--tier", tier, "--out", descPath)
	if code != 0 {
		fmt.Fprintf(os.Stderr, "describe failed (%d): %s\n", code, se)
		return 2
	}
	var desc core.Description
	if b, err := os.ReadFile(descPath); err != nil || json.Unmarshal(b, &desc) != nil {
		fmt.Fprintf(os.Stderr, "describe output unreadable: %v\n", err)
		return 2
	}
	total := desc.Plans + desc.Runs
	if workers > total {
		workers = total
	}
	if workers < 1 {
		workers = 1
	}
	deadline := time.Now().Add(time.Duration(desc.WallS * float64(time.Second))).Unix()
	fmt.Printf("[%s] tier=%s seed=%d plans=%d random_runs=%d workers=%d wall_cap=%.0fs\n", prop, tier, seed, desc.Plans, desc.Runs, workers, desc.WallS)

	sums := make([]*core.WorkerSummary, workers)
	errs := make([]string, workers)
	killed := make([]*killedRun, workers)
	var wg sync.WaitGroup
	for w := 0; w < workers; w++ {
		wg.Add(1)
		go func(w int) {
			defer wg.Done()
			out := filepath.Join(tmp, fmt.Sprintf("w%d.json", w))
			_, se, code := cfg.runFor(time.Duration(3*desc.WallS+900)*time.Second, prop, []string{"GOMAXPROCS=" + strconv.Itoa(envInt("VERIF_WORKER_PROCS", 1))},
				"worker", "--prop", prop, "--tier", tier, "--seed", strconv.FormatUint(seed, 10),
				"--worker", strconv.Itoa(w), "--workers", strconv.Itoa(workers), "--deadline", strconv.FormatInt(deadline, 10),
				"--known", cfg.known(), "--out", out)
			if code != 0 {
				if line := fatalLine(string(se)); line != "" {
					// the Go runtime killed the process (no recover stops that): which run was it in?
					if cur, err := os.ReadFile(out + ".cur"); err == nil {
						if i, err := strconv.Atoi(strings.TrimSpace(string(cur))); err == nil {
							killed[w] = &killedRun{index: i, line: line, stderr: tailOf(string(se), 6000)}
							return
						}
					}
				}
				errs[w] = fmt.Sprintf("worker %d exit %d: %s", w, code, tailOf(string(se), 4000))
				return
			}
			b, err := os.ReadFile(out)
			if err != nil {
				errs[w] = fmt.Sprintf("worker %d: %v", w, err)
				return
			}
			var s core.WorkerSummary
			if err := json.Unmarshal(b, &s); err != nil {
				errs[w] = fmt.Sprintf("worker %d: %v", w, err)
				return
			}
			sums[w] = &s
		}(w)
	}
	wg.Wait()
	for _, e := range errs {
		if e != "" {
			fmt.Fprintf(os.Stderr, "HARNESS: %s\n", e)
			return 2
		}
	}

	// merge
	m := &core.WorkerSummary{Faults: map[string]int{}, Probes: map[string]int{}, Known: map[string]int{}, KnownText: map[string]string{}}
	keys, states, fps := map[uint64]struct{}{}, map[uint64]struct{}{}, map[uint64]struct{}{}
	var viols []core.ViolationRecord
	for _, s := range sums {
		if s == nil {
			continue // a worker the runtime killed; handled below
		}
		m.Runs += s.Runs
		m.PlannedRuns += s.PlannedRuns
		m.FaultFreeRuns += s.FaultFreeRuns
		m.Evals += s.Evals
		m.Events += s.Events
		m.SimTimeMs += s.SimTimeMs
		if s.LastNewState > m.LastNewState {
			m.LastNewState = s.LastNewState
		}
		for k, v := range s.Faults {
			m.Faults[k] += v
		}
		for k, v := range s.Probes {
			m.Probes[k] += v
		}
		for _, k := range s.Keys {
			keys[k] = struct{}{}
		}
		for _, k := range s.States {
			states[k] = struct{}{}
		}
		for _, k := range s.Fingerprints {
			fps[k] = struct{}{}
		}
		for k, v := range s.Known {
			if m.Known[k] == 0 {
				m.KnownText[k] = s.KnownText[k]
			}
			m.Known[k] += v
		}
		for _, x := range s.Samples {
			if len(m.Samples) < 3 {
				m.Samples = append(m.Samples, x)
			}
		}
		m.HarnessErrs = append(m.HarnessErrs, s.HarnessErrs...)
		viols = append(viols, s.Violations...)
	}
	if len(m.HarnessErrs) > 0 {
		for _, e := range m.HarnessErrs {
			fmt.Fprintf(os.Stderr, "HARNESS: %s\n", e)
		}
		return 2
	}
	exit := 0
	nviol := 0
	var replayPath string
	var firstKilled *killedRun
	for _, k := range killed {
		if k != nil && (firstKilled == nil || k.index < firstKilled.index) {
			firstKilled = k
		}
	}
	if firstKilled != nil && (len(viols) == 0 || firstKilled.index < viols[0].Index) {
		rp, code := confirmKilled(cfg, prop, tier, seed, firstKilled, workers)
		if code == 2 {
			return 2
		}
		replayPath, nviol, exit = rp, 1, 1
		fmt.Printf("violation: property=%s class=process-killed key=%s: run %d kills the process: %s\n", prop, firstKilled.line, firstKilled.index, firstKilled.line)
		fmt.Printf("VIOLATION property=%s replay=%s\n", prop, rp)
		viols = nil
	}
	if len(viols) > 0 {
		sort.Slice(viols, func(i, j int) bool { return viols[i].Index < viols[j].Index })
		v := viols[0]
		nviol = len(viols)
		rp, code := confirm(cfg, prop, tier, seed, tmp, v, workers)
		if code == 2 {
			return 2
		}
		replayPath = rp
		fmt.Printf("violation: %s\n", v.Violation)
		fmt.Printf("VIOLATION property=%s replay=%s\n", prop, rp)
		exit = 1
	}
	var raceFacts map[string]any
	if prop == "C09" && exit == 0 && os.Getenv("VERIF_NO_RACE_PROBE") == "" {
		facts, rp, code := cfg.raceCheck(tier, seed)
		if code == 2 {
			return 2
		}
		raceFacts = facts
		if code == 1 {
			replayPath, nviol, exit = rp, 1, 1
			fmt.Printf("VIOLATION property=%s replay=%s\n", prop, rp)
		}
	}
	knownKeys := make([]string, 0, len(m.Known))
	for k := range m.Known {
		knownKeys = append(knownKeys, k)
	}
	sort.Strings(knownKeys)
	var knownOut []map[string]any
	for _, k := range knownKeys {
		fmt.Printf("KNOWN-FINDING: property=%s %s — %s (hit %d times)\n", prop, k, m.KnownText[k], m.Known[k])
		knownOut = append(knownOut, map[string]any{"key": k, "hits": m.Known[k], "what": m.KnownText[k]})
	}

	wall := time.Since(start).Seconds()
	if len(m.Samples) == 0 {
		m.Samples = append(m.Samples, "no sample recorded")
	}
	cov := map[string]any{
		"evaluations":           m.Evals,
		"distinct_nontrivial":   len(keys),
		"rule":                  desc.Rule,
		"samples":               m.Samples,
		"runs":                  m.Runs,
		"planned_runs":          m.PlannedRuns,
		"random_runs":           m.Runs - m.PlannedRuns,
		"fault_free_runs":       m.FaultFreeRuns,
		"fault_injecting_runs":  m.Runs - m.FaultFreeRuns,
		"runs_per_hour":         int(float64(m.Runs) / wall * 3600),
		"seeds_per_hour":        int(float64(m.Runs) / wall * 3600),
		"simulated_time_s":      float64(m.SimTimeMs) / 1000,
		"events":                m.Events,
		"faults_fired":          m.Faults,
		"probes":                m.Probes,
		"distinct_fingerprints": len(fps),
		"distinct_states":       len(states),
		"last_new_state_run":    m.LastNewState,
		"components":            desc.Components,
		"world":                 desc.World,
		"workers":               workers,
		"known_findings_hit":    knownOut,
	}
	if desc.Exhaustive != "" {
		cov["exhaustive_subspace"] = desc.Exhaustive
	}
	if replayPath != "" {
		cov["replay"] = replayPath
	}
	if raceFacts != nil {
		cov["race_probe"] = raceFacts
	}
	ev := map[string]any{
		"property_id": prop, "tier": tier, "seed": seed, "level": desc.Level,
		"coverage": cov, "assumptions": desc.Assumptions, "wall_s": wall, "violations": nviol,
	}
	evDir := filepath.Join(cfg.VerifDir, "evidence")
	os.MkdirAll(evDir, 0o755)
	b, _ := json.MarshalIndent(ev, "", " ")
	if err := os.WriteFile(filepath.Join(evDir, prop+".json"), append(b, '\n'), 0o644); err != nil {
		fmt.Fprintln(os.Stderr, err)
		return 2
	}
	fmt.Printf("[%s] runs=%d evals=%d distinct_nontrivial=%d fingerprints=%d states=%d faults=%v wall=%.1fs violations=%d\n",
		prop, m.Runs, m.Evals, len(keys), len(fps), len(states), m.Faults, wall, nviol)
	return exit
}

// killedRun is a run during which the Go runtime ended the worker process.
type killedRun struct {
	index  int
	line   string // the runtime's "fatal error: ..." line
	stderr string
}

// fatalLine returns the Go runtime's fatal-error line in a process's stderr, or "".
func fatalLine(stderr string) string {
	for _, l := range strings.Split(stderr, "\n") {
		if strings.HasPrefix(l, "fatal error: ") || strings.HasPrefix(l, "runtime: goroutine stack exceeds") {
			return strings.TrimSpace(l)
		}
	}
	return ""
}

// confirmKilled re-executes a run that killed its worker in a process of its own (then after
// growing suffixes of its predecessors in that worker) and, when the process dies again, writes
// the replay file: batch seed, run index and warm-up runs identify the execution exactly.
func confirmKilled(cfg Config, prop, tier string, seed uint64, k *killedRun, workers int) (string, int) {
	dir := filepath.Join(cfg.VerifDir, "replays")
	os.MkdirAll(dir, 0o755)
	out := filepath.Join(dir, fmt.Sprintf("%s-%d-%d.json", prop, seed, k.index))
	w := k.index % workers
	var pred []int
	for i := w; i < k.index; i += workers {
		pred = append(pred, i)
	}
	ks := []int{0}
	for n := 1; n < len(pred); n *= 2 {
		ks = append(ks, n)
	}
	if len(pred) > 0 {
		ks = append(ks, len(pred))
	}
	for _, n := range ks {
		warm := pred[len(pred)-n:]
		if line, se := execOneDies(cfg, prop, tier, seed, k.index, warm); line != "" {
			rf := &core.ReplayFile{Version: 1, Property: prop, Tier: tier, Index: k.index, BatchSeed: seed, Warmup: warm,
				Violation: &core.Violation{Property: prop, Class: "process-killed", Key: line,
					Detail: fmt.Sprintf("run %d of batch seed %d ends the process with a fatal runtime error no recover can stop: %s", k.index, seed, tailOf(se, 3000))}}
			b, _ := json.MarshalIndent(rf, "", " ")
			if err := os.WriteFile(out, append(b, '\n'), 0o644); err != nil {
				fmt.Fprintln(os.Stderr, err)
				return "", 2
			}
			return out, 0
		}
	}
	fmt.Fprintf(os.Stderr, "HARNESS: a worker died during run %d (%s) but the run does not kill a process of its own: %s\n", k.index, k.line, k.stderr)
	return "", 2
}

func execOneDies(cfg Config, prop, tier string, seed uint64, index int, warm []int) (string, string) {
	var ws []string
	for _, i := range warm {
		ws = append(ws, strconv.Itoa(i))
	}
	_, se, code := cfg.run(prop, nil, "exec-one", "--prop", prop, "--tier", tier, "--seed", strconv.FormatUint(seed, 10),
		"--index", strconv.Itoa(index), "--known", cfg.known(), "--warmup", strings.Join(ws, ","))
	if code == 0 {
		return "", ""
	}
	return fatalLine(string(se)), string(se)
}

// confirm minimises a violation and replays the result in a fresh process.
func confirm(cfg Config, prop, tier string, seed uint64, tmp string, v core.ViolationRecord, workers int) (string, int) {
	in := filepath.Join(tmp, "viol.json")
	b, _ := json.Marshal(v)
	os.WriteFile(in, b, 0o644)
	dir := filepath.Join(cfg.VerifDir, "replays")
	os.MkdirAll(dir, 0o755)
	out := filepath.Join(dir, fmt.Sprintf("%s-%d-%d.json", prop, seed, v.Index))
	trouble := ""
	_, se, code := cfg.run(prop, nil, "shrink", "--prop", prop, "--tier", tier, "--seed", strconv.FormatUint(seed, 10),
		"--in", in, "--out", out, "--known", cfg.known())
	if line := fatalLine(string(se)); code != 0 && line != "" {
		// re-executing the run killed the shrinker: the finding is that the run kills the process
		return confirmKilled(cfg, prop, tier, seed, &killedRun{index: v.Index, line: line, stderr: tailOf(string(se), 6000)}, workers)
	}
	if code != 0 {
		trouble = fmt.Sprintf("shrink failed (%d): %s", code, tailOf(string(se), 4000))
	} else {
		// (a few attempts: the code under test may itself be nondeterministic — ranging over a map,
		// say — and then a trace reproduces only when the code happens to take the same turn)
		var so, se []byte
		for attempt := 0; attempt < 4; attempt++ {
			so, se, code = cfg.run(prop, nil, "replay", "--known", cfg.known(), out)
			if code == 0 {
				if attempt > 0 {
					fmt.Printf("note: the replay reproduced on attempt %d: the code under test does not behave the same way on every execution of one trace\n", attempt+1)
				}
				return out, 0
			}
		}
		trouble = fmt.Sprintf("the minimised violation did not replay in a fresh process (%d): %s %s", code, so, tailOf(string(se), 4000))
	}
	// The run alone does not fail in a fresh process. If the code under test keeps state for the
	// life of the process, the run after its predecessors in the same worker does: find the shortest
	// suffix of those predecessors after which it reproduces, and make them part of the replay file.
	w := v.Index % workers
	var pred []int
	for i := w; i < v.Index; i += workers {
		pred = append(pred, i)
	}
	// (first of all the unminimised run on its own: executions of the shrinker share one process,
	// so with such state a candidate may "fail" only thanks to its predecessors in the shrinker)
	ks := []int{0}
	for k := 1; k < len(pred); k *= 2 {
		ks = append(ks, k)
	}
	if len(pred) > 0 {
		ks = append(ks, len(pred))
	}
	for _, k := range ks {
		var ws []string
		for _, i := range pred[len(pred)-k:] {
			ws = append(ws, strconv.Itoa(i))
		}
		code := 3
		for attempt := 0; attempt < 3 && code != 0; attempt++ {
			_, _, code = cfg.run(prop, nil, "context", "--prop", prop, "--tier", tier, "--seed", strconv.FormatUint(seed, 10),
				"--in", in, "--out", out, "--known", cfg.known(), "--warmup", strings.Join(ws, ","))
		}
		if code != 0 {
			continue
		}
		rc := 3
		for attempt := 0; attempt < 4 && rc != 0; attempt++ {
			_, _, rc = cfg.run(prop, nil, "replay", "--known", cfg.known(), out)
		}
		if rc == 0 {
			if k == 0 {
				fmt.Printf("note: reported unminimised: the code under test keeps state across executions in one process, which misled the shrinker\n")
			} else {
				fmt.Printf("note: the violation depends on state the code under test keeps across runs of one process; the replay file executes %d earlier run(s) of the batch first\n", k)
			}
			return out, 0
		}
	}
	fmt.Fprintf(os.Stderr, "HARNESS: %s\n", trouble)
	return "", 2
}

// Replay re-executes a replay file in a worker process.
func Replay(cfg Config, path string, verbose bool) int {
	b, err := os.ReadFile(path)
	if err != nil {
		fmt.Fprintln(os.Stderr, err)
		return 2
	}
	var rf core.ReplayFile
	if err := json.Unmarshal(b, &rf); err != nil {
		fmt.Fprintln(os.Stderr, err)
		return 2
	}
	if rf.Violation != nil && rf.Violation.Class == "data-race" {
		return cfg.replayRace(&rf, path, verbose)
	}
	if rf.Violation != nil && rf.Violation.Class == "process-killed" {
		line, se := execOneDies(cfg, rf.Property, rf.Tier, rf.BatchSeed, rf.Index, rf.Warmup)
		if verbose {
			os.Stderr.WriteString(tailOf(se, 4000))
		}
		if line == "" {
			fmt.Printf("replay: the run did not kill the process (expected %s)\n", rf.Violation.Key)
			return 3
		}
		fmt.Printf("replay: reproduced: the process dies with %q (recorded: %q)\n", line, rf.Violation.Key)
		fmt.Printf("VIOLATION property=%s replay=%s\n", rf.Property, path)
		return 1
	}
	args := []string{"replay", "--known", cfg.known()}
	if verbose {
		args = append(args, "-v")
	}
	var so, se []byte
	code := 3
	for attempt := 0; attempt < 4 && code == 3; attempt++ {
		so, se, code = cfg.run(rf.Property, nil, append(args, path)...)
	}
	os.Stdout.Write(so)
	os.Stderr.Write(se)
	if code == 0 {
		fmt.Printf("VIOLATION property=%s replay=%s\n", rf.Property, path)
		return 1
	}
	return code
}

func tailOf(s string, n int) string {
	if len(s) > n {
		return s[len(s)-n:]
	}
	return s
}

// Determinism runs the first n runs of a batch several times in separate processes, at
// different GOMAXPROCS and worker counts, and compares every run's event-log hash.
func Determinism(cfg Config, prop, tier string, n int) int {
	seed := uint64(envInt("VERIF_SEED", 1))
	tmp, err := os.MkdirTemp("", "verifsim-det-")
	if err != nil {
		fmt.Fprintln(os.Stderr, err)
		return 2
	}
	defer os.RemoveAll(tmp)
	type cfgT struct{ procs, workers int }
	var ref map[int]string
	bad := 0
	execs := 0
	for rep := 0; rep < 2; rep++ {
		for _, c := range []cfgT{{1, 1}, {4, 16}, {16, 4}} {
			got := map[int]string{}
			var wg sync.WaitGroup
			var mu sync.Mutex
			fail := ""
			for w := 0; w < c.workers; w++ {
				wg.Add(1)
				go func(w int) {
					defer wg.Done()
					out := filepath.Join(tmp, fmt.Sprintf("d-%d-%d-%d-%d.json", rep, c.procs, c.workers, w))
					_, se, code := cfg.run(prop, []string{"GOMAXPROCS=" + strconv.Itoa(c.procs)}, "worker", "--prop", prop, "--tier", tier,
						"--seed", strconv.FormatUint(seed, 10), "--worker", strconv.Itoa(w), "--workers", strconv.Itoa(c.workers),
						"--to", strconv.Itoa(n), "--per-run", "--known", cfg.known(), "--out", out)
					mu.Lock()
					defer mu.Unlock()
					if code != 0 {
						fail = fmt.Sprintf("worker exit %d: %s", code, tailOf(string(se), 2000))
						return
					}
					b, _ := os.ReadFile(out)
					var s core.WorkerSummary
					if err := json.Unmarshal(b, &s); err != nil {
						fail = err.Error()
						return
					}
					if len(s.HarnessErrs) > 0 {
						fail = s.HarnessErrs[0]
					}
					for i, h := range s.PerRun {
						got[i] = h
					}
				}(w)
			}
			wg.Wait()
			if fail != "" {
				fmt.Fprintf(os.Stderr, "HARNESS: %s\n", fail)
				return 2
			}
			execs += len(got)
			if ref == nil {
				ref = got
				continue
			}
			for i, h := range ref {
				if g, ok := got[i]; ok && g != h {
					bad++
					fmt.Printf("NONDETERMINISM property=%s run=%d rep=%d procs=%d workers=%d: %s vs %s\n", prop, i, rep, c.procs, c.workers, g[:16], h[:16])
				}
			}
		}
	}
	fmt.Printf("[%s] determinism: %d runs x 6 configurations (%d executions), %d mismatches\n", prop, len(ref), execs, bad)
	if bad > 0 {
		return 2
	}
	return 0
}
