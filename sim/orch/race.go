package orch

import (
	"context"
	"encoding/json"
	"fmt"
	"os"
	"os/exec"
	"path/filepath"
	"regexp"
	"strconv"
	"strings"
	"time"

	"verifsim/core"
)

// The C09 race probe (sim/worldr/c09_race_test.go): a -race build of the unmodified repository in
// which several goroutines really run one validator in parallel. It complements the
// deterministic scheduler, which decides interleavings between statements and so cannot see a
// conflict inside one. The race detector's report does not depend on the accesses overlapping in
// time, only on no synchronisation ordering them; a report is confirmed by running its scenario
// alone again before it is turned into a violation.

type raceResult struct {
	scenarios, calls int
	report           string // the detector's report ("" = none)
	scenario         int    // the scenario the report belongs to
	site             string // repository file:line of the first access in the report
}

var (
	raceScenario = regexp.MustCompile(`race-probe: scenario (\d+) `)
	raceDone     = regexp.MustCompile(`race-probe: done scenarios=(\d+) calls=(\d+)`)
	raceFrame    = regexp.MustCompile(`^\s+(/\S+\.go):(\d+)`)
)

func (c Config) raceProbe(tier string, seed uint64, only int) (*raceResult, error) {
	bin := filepath.Join(c.BinDir, "verifsim-c09-race")
	if _, err := os.Stat(bin); err != nil {
		return nil, fmt.Errorf("race probe binary missing: %v", err)
	}
	ctx, cancel := context.WithTimeout(context.Background(), 30*time.Minute)
	defer cancel()
	cmd := exec.CommandContext(ctx, bin, "-test.run=^TestRaceProbe$", "-test.timeout=0")
	cmd.Env = append(os.Environ(), "GORACE=halt_on_error=1 exitcode=66", "GOMAXPROCS="+strconv.Itoa(envInt("VERIF_RACE_PROCS", 8)),
		"VERIF_SEED="+strconv.FormatUint(seed, 10), "VERIF_TIER="+tier, "VERIF_RACE_ONLY="+strconv.Itoa(only))
	var so, se strings.Builder
	cmd.Stdout, cmd.Stderr = &so, &se
	err := cmd.Run()
	res := &raceResult{scenario: -1}
	all := so.String() + "\n" + se.String()
	for _, m := range raceScenario.FindAllStringSubmatch(so.String(), -1) {
		res.scenario, _ = strconv.Atoi(m[1])
	}
	if m := raceDone.FindStringSubmatch(so.String()); m != nil {
		res.scenarios, _ = strconv.Atoi(m[1])
		res.calls, _ = strconv.Atoi(m[2])
	}
	if i := strings.Index(all, "WARNING: DATA RACE"); i >= 0 {
		res.report = all[i:]
		if j := strings.Index(res.report[1:], "=================="); j > 0 {
			res.report = res.report[:j+1]
		}
		// the first frame that lies in the repository under test (not the Go tree, not the harness)
		for _, l := range strings.Split(res.report, "\n") {
			if m := raceFrame.FindStringSubmatch(l); m != nil {
				p := m[1]
				if strings.Contains(p, "/verif/sim/") || strings.Contains(p, "/src/") && strings.Contains(p, "/go") || strings.Contains(p, "/pkg/mod/") {
					continue
				}
				for _, root := range []string{os.Getenv("VERIF_REPO"), os.Getenv("VP_RUN_REPO"), "/repo"} {
					if root != "" && strings.HasPrefix(p, root+"/") {
						p = strings.TrimPrefix(p, root+"/")
						break
					}
				}
				res.site = p + ":" + m[2]
				break
			}
		}
		return res, nil
	}
	if err != nil {
		return nil, fmt.Errorf("race probe failed without a race report: %v: %s", err, tailOf(all, 3000))
	}
	return res, nil
}

// raceCheck runs the probe and, on a report, confirms it and writes the replay file.
// It returns coverage facts, the replay path ("" = no violation) and an exit code (0, 1 or 2).
func (c Config) raceCheck(tier string, seed uint64) (map[string]any, string, int) {
	start := time.Now()
	res, err := c.raceProbe(tier, seed, -1)
	if err != nil {
		fmt.Fprintf(os.Stderr, "HARNESS: %v\n", err)
		return nil, "", 2
	}
	facts := map[string]any{"scenarios": res.scenarios, "validator_calls_in_parallel": res.calls, "reports": 0, "wall_s": time.Since(start).Seconds(),
		"how": "-race build of the unmodified repository; 3-8 goroutines call one validator (or validators sharing one options value) in parallel; GORACE=halt_on_error=1"}
	if res.report == "" {
		return facts, "", 0
	}
	facts["reports"] = 1
	// confirm: the scenario alone, in a fresh process (a few attempts: goroutine timing is real)
	confirmed := false
	for i := 0; i < 4 && !confirmed; i++ {
		if again, err := c.raceProbe(tier, seed, res.scenario); err == nil && again.report != "" {
			confirmed = true
		}
	}
	if !confirmed {
		fmt.Fprintf(os.Stderr, "HARNESS: the race detector reported a race in scenario %d that does not show when the scenario runs alone:\n%s\n", res.scenario, tailOf(res.report, 3000))
		return facts, "", 2
	}
	dir := filepath.Join(c.VerifDir, "replays")
	os.MkdirAll(dir, 0o755)
	out := filepath.Join(dir, fmt.Sprintf("C09-%d-race-%d.json", seed, res.scenario))
	rf := &core.ReplayFile{Version: 1, Property: "C09", World: "R (relying party), race probe", Tier: tier, Index: res.scenario, BatchSeed: seed,
		Violation: &core.Violation{Property: "C09", Class: "data-race", Key: res.site,
			Detail: fmt.Sprintf("calls of one validator running in parallel access shared state without synchronisation (scenario %d of the race probe, batch seed %d); the race detector's report:\n%s", res.scenario, seed, tailOf(res.report, 5000))}}
	b, _ := json.MarshalIndent(rf, "", " ")
	if err := os.WriteFile(out, append(b, '\n'), 0o644); err != nil {
		fmt.Fprintln(os.Stderr, err)
		return facts, "", 2
	}
	fmt.Printf("violation: property=C09 class=data-race key=%s: calls of one validator running in parallel access shared state without synchronisation (race probe scenario %d)\n", res.site, res.scenario)
	return facts, out, 1
}

// replayRace re-runs the scenario of a data-race replay file.
func (c Config) replayRace(rf *core.ReplayFile, path string, verbose bool) int {
	for i := 0; i < 4; i++ {
		res, err := c.raceProbe(rf.Tier, rf.BatchSeed, rf.Index)
		if err != nil {
			fmt.Fprintln(os.Stderr, err)
			return 2
		}
		if res.report != "" {
			if verbose {
				fmt.Println(res.report)
			}
			fmt.Printf("replay: reproduced: the race detector reports a data race at %s (recorded: %s)\n", res.site, rf.Violation.Key)
			fmt.Printf("VIOLATION property=%s replay=%s\n", rf.Property, path)
			return 1
		}
	}
	fmt.Printf("replay: no data race reported (expected one at %s)\n", rf.Violation.Key)
	return 3
}
