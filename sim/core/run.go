package core

import (
	"crypto/sha256"
	"encoding/hex"
	"fmt"
	"hash"
	"hash/fnv"
	"runtime/debug"
	"sort"
	"strings"
	"time"
)

// Violation is a property violation found by a run. Class is one of the classes enumerated for
// the property in DESIGN.md; Key identifies the failing call site / history shape and is what a
// known-findings entry matches on (together with property and class).
type Violation struct {
	Property string `json:"property"`
	Class    string `json:"class"`
	Key      string `json:"key"`
	Detail   string `json:"detail"`
}

func (v *Violation) String() string {
	return fmt.Sprintf("property=%s class=%s key=%s: %s", v.Property, v.Class, v.Key, v.Detail)
}

// KnownFinding is one entry of /verif/known_findings.json.
type KnownFinding struct {
	Property    string `json:"property"`
	Class       string `json:"class"`
	Key         string `json:"key"`
	Description string `json:"description"`
}

type stopRun struct{}

// Run is one simulated execution. Everything a world does goes through it: decisions (Src),
// the event log, fault and probe counters, evaluations, and the verdict.
type Run struct {
	Property string
	Tier     string
	Index    int
	Seed     uint64
	Src      Source

	hasher  hash.Hash
	nEvents int
	head    []string // first lines of the event log
	tail    []string // last lines (ring)

	Faults  map[string]int
	Probes  map[string]int
	States  map[uint64]struct{}
	Keys    map[uint64]struct{} // distinct non-trivial evaluation keys
	Evals   int
	SimTime time.Duration

	Viol       *Violation
	Known      map[string]int    // known-finding key -> hits
	KnownText  map[string]string // key -> "<class> <detail>" of first hit
	knownIndex map[string]bool   // property|class|key
	Sample     any
	HarnessErr string

	// Blobs delivered to the code under test whose bytes are not determined by the trace alone
	// (protobuf map order). Recorded in record mode; served from ReplayBlobs when present.
	Blobs       map[string][]byte
	ReplayBlobs map[string][]byte

	cleanup    []func()
	firstFault string

	// Vars are per-run settings a world draws once and its helpers read (nil until first set).
	Vars map[string]string
}

// Var returns a per-run setting, or def when the run has not set it.
func (r *Run) Var(name, def string) string {
	if v, ok := r.Vars[name]; ok {
		return v
	}
	return def
}

// SetVar records a per-run setting.
func (r *Run) SetVar(name, v string) {
	if r.Vars == nil {
		r.Vars = map[string]string{}
	}
	r.Vars[name] = v
}

const keepHead, keepTail = 400, 200

// NewRun builds a run.
func NewRun(property, tier string, index int, seed uint64, src Source, known []KnownFinding) *Run {
	r := &Run{Property: property, Tier: tier, Index: index, Seed: seed, Src: src,
		hasher: sha256.New(), Faults: map[string]int{}, Probes: map[string]int{},
		States: map[uint64]struct{}{}, Keys: map[uint64]struct{}{}, Known: map[string]int{},
		KnownText: map[string]string{}, knownIndex: map[string]bool{}, Blobs: map[string][]byte{}}
	for _, k := range known {
		r.knownIndex[k.Property+"|"+k.Class+"|"+k.Key] = true
	}
	return r
}

// Intn draws a decision.
func (r *Run) Intn(n int, label string) int { return r.Src.Intn(n, label) }

// Chance is true with probability pct percent.
func (r *Run) Chance(pct int, label string) bool {
	if pct <= 0 {
		return false
	}
	if pct >= 100 {
		return true
	}
	// value 0 (what an exhausted or shrunk trace yields) is "does not happen"
	return r.Src.Intn(100, label) >= 100-pct
}

// Bool draws a fair coin. Value 0 (the shrink target) is false.
func (r *Run) Bool(label string) bool { return r.Src.Intn(2, label) == 1 }

// Eventf appends a line to the event log. Arguments must be seed-determined (no key bytes, no
// signatures, no wall-clock readings).
func (r *Run) Eventf(format string, a ...any) {
	line := fmt.Sprintf(format, a...)
	r.hasher.Write([]byte(line))
	r.hasher.Write([]byte{'\n'})
	if r.nEvents < keepHead {
		r.head = append(r.head, line)
	} else {
		if len(r.tail) >= keepTail {
			r.tail = r.tail[1:]
		}
		r.tail = append(r.tail, line)
	}
	r.nEvents++
}

// Fault counts one firing of a fault kind and logs it.
func (r *Run) Fault(kind string, format string, a ...any) {
	r.Faults[kind]++
	if r.firstFault == "" {
		site := fmt.Sprintf(format, a...)
		if i := strings.IndexByte(site, ' '); i >= 0 && strings.HasPrefix(site, "call#") {
			site = site[i+1:]
		}
		if i := strings.IndexByte(site, '('); i >= 0 {
			site = site[:i]
		}
		r.firstFault = kind + "@" + site
	}
	r.Eventf("FAULT %s "+format, append([]any{kind}, a...)...)
}

// Probe counts a "rare condition was hit" marker.
func (r *Run) Probe(name string) { r.Probes[name]++ }

// State records an abstract state reached.
func (r *Run) State(s string) { r.States[hash64(s)] = struct{}{} }

// Eval counts one evaluation of the property; key identifies it for the distinct count and
// nontrivial says whether it counts at all there.
func (r *Run) Eval(key string, nontrivial bool) {
	r.Evals++
	if nontrivial {
		r.Keys[hash64(key)] = struct{}{}
	}
}

// Advance adds simulated time covered.
func (r *Run) Advance(d time.Duration) { r.SimTime += d }

// Defer registers cleanup (scratch directories) executed when the run ends, however it ends.
func (r *Run) Defer(f func()) { r.cleanup = append(r.cleanup, f) }

// Fail reports a violation of the run's property. A violation listed in the known-findings file
// is counted and the run continues (Fail returns); any other violation ends the run.
func (r *Run) Fail(class, key, format string, a ...any) {
	detail := fmt.Sprintf(format, a...)
	if r.knownIndex[r.Property+"|"+class+"|"+key] {
		if r.Known[key] == 0 {
			r.KnownText[key] = class + ": " + detail
		}
		r.Known[key]++
		r.Eventf("KNOWN %s %s", class, key)
		return
	}
	if r.Evals == 0 {
		r.Evals = 1 // the violating evaluation itself
	}
	r.Eventf("VIOLATION %s %s", class, key)
	r.Viol = &Violation{Property: r.Property, Class: class, Key: key, Detail: detail}
	panic(stopRun{})
}

// Blob returns the bytes to deliver under name: the recorded blob when replaying a file that has
// one, else gen(). Either way the delivered bytes are recorded.
func (r *Run) Blob(name string, gen func() []byte) []byte {
	if b, ok := r.ReplayBlobs[name]; ok {
		r.Blobs[name] = b
		return append([]byte(nil), b...)
	}
	b := gen()
	r.Blobs[name] = append([]byte(nil), b...)
	return b
}

// Fingerprint is sha256 of the event log.
func (r *Run) Fingerprint() string { return hex.EncodeToString(r.hasher.Sum(nil)) }

// EventLog returns the retained part of the event log.
func (r *Run) EventLog() []string {
	out := append([]string(nil), r.head...)
	if r.nEvents > keepHead+len(r.tail) {
		out = append(out, fmt.Sprintf("... %d lines elided ...", r.nEvents-keepHead-len(r.tail)))
	}
	return append(out, r.tail...)
}

// NEvents returns the number of event lines.
func (r *Run) NEvents() int { return r.nEvents }

// Execute runs body under r, converting Fail into a verdict and any other panic into a harness
// error (which is never reported as a violation).
func Execute(r *Run, body func(*Run)) {
	defer func() {
		for i := len(r.cleanup) - 1; i >= 0; i-- {
			func() {
				defer func() { _ = recover() }()
				r.cleanup[i]()
			}()
		}
		r.cleanup = nil
	}()
	defer func() {
		if p := recover(); p != nil {
			if _, ok := p.(stopRun); ok {
				return
			}
			stack := string(debug.Stack())
			// A panic raised beneath the code under test (no harness frame between the panic and the
			// repository's function) is a finding about that code, not trouble in the harness.
			if fn := panickedInRepo(stack); fn != "" && r.Viol == nil {
				if r.Evals == 0 {
					r.Evals = 1
				}
				r.Eventf("VIOLATION run-crashed %s", fn)
				r.Viol = &Violation{Property: r.Property, Class: "run-crashed", Key: fn, Detail: fmt.Sprintf("the code under test panicked in %s: %v", fn, p)}
				return
			}
			r.HarnessErr = fmt.Sprintf("panic outside a monitored call: %v\n%s", p, stack)
		}
	}()
	body(r)
}

// panickedInRepo reads a stack trace taken in a deferred recover: it returns the repository
// function the panic was raised in or beneath, or "" when a harness frame comes first.
func panickedInRepo(stack string) string {
	lines := strings.Split(stack, "\n")
	seenPanic := false
	for _, l := range lines {
		if strings.HasPrefix(l, "\t") || l == "" {
			continue
		}
		if !seenPanic {
			seenPanic = strings.HasPrefix(l, "panic(")
			continue
		}
		switch {
		case strings.HasPrefix(l, "verifsim/"):
			return ""
		case strings.HasPrefix(l, "github.com/google/gce-tcb-verifier/"):
			fn := l[strings.LastIndex(l, "/")+1:]
			if i := strings.IndexByte(fn, '('); i > 0 && !strings.HasPrefix(fn[i:], "(*") {
				fn = fn[:i]
			} else if j := strings.LastIndexByte(fn, '('); j > 0 {
				fn = fn[:j]
			}
			return fn
		}
	}
	return ""
}

func hash64(s string) uint64 {
	h := fnv.New64a()
	h.Write([]byte(s))
	return h.Sum64()
}

// Hash64 exposes the key hash for worlds that pre-aggregate.
func Hash64(s string) uint64 { return hash64(s) }

// SortedKeys returns map keys in sorted order; worlds use it instead of ranging over maps when
// order can reach the event log or a decision.
func SortedKeys[V any](m map[string]V) []string {
	out := make([]string, 0, len(m))
	for k := range m {
		out = append(out, k)
	}
	sort.Strings(out)
	return out
}

// Short trims a string for event lines.
func Short(s string, n int) string {
	s = strings.ReplaceAll(s, "\n", " ")
	if len(s) > n {
		return s[:n] + "..."
	}
	return s
}

// FirstFaultSite returns "<kind>@<site>" of the first fault fired in this run ("" if none); the
// site is stripped of its parenthesised arguments so it can serve as a known-finding key.
func (r *Run) FirstFaultSite() string { return r.firstFault }
