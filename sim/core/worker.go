package core

import (
	"encoding/json"
	"flag"
	"fmt"
	"os"
	"sort"
	"strconv"
	"strings"
	"time"
)

// ViolationRecord is a violating run as reported by a worker.
type ViolationRecord struct {
	Index     int               `json:"index"`
	Seed      uint64            `json:"seed"`
	Violation *Violation        `json:"violation"`
	Trace     Trace             `json:"trace"`
	Blobs     map[string][]byte `json:"blobs,omitempty"`
	EventLog  []string          `json:"event_log"`
	EventHash string            `json:"event_sha256"`
}

// WorkerSummary is what one worker process reports for its share of a batch.
type WorkerSummary struct {
	Property      string            `json:"property"`
	Runs          int               `json:"runs"`
	PlannedRuns   int               `json:"planned_runs"`
	FaultFreeRuns int               `json:"fault_free_runs"`
	Evals         int               `json:"evals"`
	Keys          []uint64          `json:"keys"`
	States        []uint64          `json:"states"`
	Fingerprints  []uint64          `json:"fingerprints"`
	Faults        map[string]int    `json:"faults"`
	Probes        map[string]int    `json:"probes"`
	SimTimeMs     int64             `json:"sim_time_ms"`
	Events        int64             `json:"events"`
	Samples       []any             `json:"samples"`
	Violations    []ViolationRecord `json:"violations"`
	Known         map[string]int    `json:"known"`
	KnownText     map[string]string `json:"known_text"`
	HarnessErrs   []string          `json:"harness_errs"`
	WallS         float64           `json:"wall_s"`
	LastNewState  int               `json:"last_new_state_run"`
	PerRun        map[int]string    `json:"per_run,omitempty"`
}

// Description is the metadata the orchestrator needs about a check.
type Description struct {
	ID          string      `json:"id"`
	World       string      `json:"world"`
	Level       string      `json:"level"`
	Rule        string      `json:"rule"`
	Assumptions []string    `json:"assumptions"`
	Components  []Component `json:"components"`
	Exhaustive  string      `json:"exhaustive"`
	Plans       int         `json:"plans"`
	Runs        int         `json:"runs"`
	WallS       float64     `json:"wall_s"`
}

// LoadKnown reads the known-findings file (missing file = none).
func LoadKnown(path string) []KnownFinding {
	b, err := os.ReadFile(path)
	if err != nil {
		return nil
	}
	var doc struct {
		Findings []KnownFinding `json:"findings"`
	}
	if err := json.Unmarshal(b, &doc); err != nil {
		fmt.Fprintf(os.Stderr, "known findings file %s unreadable: %v\n", path, err)
		os.Exit(2)
	}
	return doc.Findings
}

// ReplayFile is the on-disk format of a reported violation.
type ReplayFile struct {
	Version   int               `json:"version"`
	Property  string            `json:"property"`
	World     string            `json:"world"`
	Tier      string            `json:"tier"`
	Seed      uint64            `json:"seed"`
	Index     int               `json:"index"`
	BatchSeed uint64            `json:"batch_seed"`
	Choices   Trace             `json:"choices"`
	Blobs     map[string][]byte `json:"blobs,omitempty"`
	Violation *Violation        `json:"violation"`
	EventLog  []string          `json:"event_log"`
	EventHash string            `json:"event_sha256"`
	Original  int               `json:"original_choices"`
	ShrinkRun int               `json:"shrink_executions"`
	// Warmup: run indices of the same batch (batch_seed, tier) that are executed, in this order,
	// before the recorded run. Present only when the violation depends on state the code under test
	// keeps for the life of the process (a package-level cache, a pool): the run alone does not
	// reproduce it in a fresh process, the run after these predecessors does.
	Warmup []int `json:"warmup_runs,omitempty"`
}

var exitHooks []func()

// OnExit registers cleanup to run when Main returns (scratch files made by a check's Init).
func OnExit(f func()) { exitHooks = append(exitHooks, f) }

// Main dispatches the sub-commands every worker binary understands. It returns the exit code.
func Main(args []string) int {
	defer func() {
		for _, f := range exitHooks {
			f()
		}
	}()
	if len(args) == 0 {
		fmt.Fprintln(os.Stderr, "usage: describe|worker|shrink|replay ...")
		return 2
	}
	switch args[0] {
	case "describe":
		return cmdDescribe(args[1:])
	case "worker":
		return cmdWorker(args[1:])
	case "shrink":
		return cmdShrink(args[1:])
	case "replay":
		return cmdReplay(args[1:])
	case "context":
		return cmdContext(args[1:])
	case "exec-one":
		return cmdExecOne(args[1:])
	}
	fmt.Fprintf(os.Stderr, "unknown sub-command %q\n", args[0])
	return 2
}

func mustCheck(id string) *Check {
	c := Lookup(id)
	if c == nil {
		fmt.Fprintf(os.Stderr, "no check %q in this binary (have %v)\n", id, IDs())
		os.Exit(2)
	}
	if c.Init != nil {
		c.Init()
	}
	return c
}

func plansOf(c *Check, tier string) []Trace {
	if c.Plans == nil {
		return nil
	}
	return c.Plans(tier)
}

func cmdDescribe(args []string) int {
	fs := flag.NewFlagSet("describe", flag.ExitOnError)
	id := fs.String("prop", "", "property id")
	tier := fs.String("tier", "quick", "tier")
	out := fs.String("out", "", "write here instead of stdout")
	fs.Parse(args)
	c := mustCheck(*id)
	b := c.Budget(*tier)
	d := Description{ID: c.ID, World: c.World, Level: c.Level, Rule: c.Rule, Assumptions: c.Assumptions,
		Components: c.Components, Exhaustive: c.Exhaustive, Plans: len(plansOf(c, *tier)), Runs: b.Runs, WallS: b.Wall.Seconds()}
	return writeJSON(*out, d)
}

func cmdWorker(args []string) int {
	fs := flag.NewFlagSet("worker", flag.ExitOnError)
	id := fs.String("prop", "", "property id")
	tier := fs.String("tier", "quick", "tier")
	seed := fs.Uint64("seed", 1, "batch seed")
	w := fs.Int("worker", 0, "worker number")
	nw := fs.Int("workers", 1, "worker count")
	from := fs.Int("from", 0, "first run index")
	to := fs.Int("to", -1, "one past the last run index (-1: plans+budget)")
	deadline := fs.Int64("deadline", 0, "unix seconds after which no new run starts (0: none)")
	perRun := fs.Bool("per-run", false, "report every run's fingerprint")
	known := fs.String("known", "", "known findings file")
	out := fs.String("out", "", "write the summary here instead of stdout")
	fs.Parse(args)
	c := mustCheck(*id)
	kf := LoadKnown(*known)
	plans := plansOf(c, *tier)
	total := len(plans) + c.Budget(*tier).Runs
	if *to >= 0 {
		total = *to
	}
	start := time.Now()
	sum := &WorkerSummary{Property: c.ID, Faults: map[string]int{}, Probes: map[string]int{}, Known: map[string]int{}, KnownText: map[string]string{}}
	if *perRun {
		sum.PerRun = map[int]string{}
	}
	keys, states, fps := map[uint64]struct{}{}, map[uint64]struct{}{}, map[uint64]struct{}{}
	for i := *from + *w; i < total; i += *nw {
		if *deadline > 0 && time.Now().Unix() >= *deadline && i >= len(plans) {
			break
		}
		var prefix Trace
		if i < len(plans) {
			prefix = plans[i]
			sum.PlannedRuns++
		}
		// which run is executing: the orchestrator reads this when the process dies of a fatal
		// runtime error (stack overflow, concurrent map access) that no recover can stop
		if *out != "" {
			os.WriteFile(*out+".cur", []byte(strconv.Itoa(i)), 0o644)
		}
		// A run that does not come back is harness trouble (exit 2), never a verdict.
		idx := i
		wd := time.AfterFunc(runWatchdog(), func() {
			fmt.Fprintf(os.Stderr, "watchdog: %s run %d (batch seed %d) still executing after %v of real time\n", c.ID, idx, *seed, runWatchdog())
			os.Exit(2)
		})
		r := ExecSeeded(c, *tier, i, *seed, prefix, kf)
		wd.Stop()
		sum.Runs++
		sum.Evals += r.Evals
		sum.Events += int64(r.NEvents())
		sum.SimTimeMs += r.SimTime.Milliseconds()
		nf := 0
		for k, v := range r.Faults {
			sum.Faults[k] += v
			nf += v
		}
		if nf == 0 {
			sum.FaultFreeRuns++
		}
		for k, v := range r.Probes {
			sum.Probes[k] += v
		}
		for k := range r.Keys {
			keys[k] = struct{}{}
		}
		before := len(states)
		for k := range r.States {
			states[k] = struct{}{}
		}
		if len(states) > before {
			sum.LastNewState = i
		}
		fp := r.Fingerprint()
		fps[hash64(fp)] = struct{}{}
		if *perRun {
			sum.PerRun[i] = fp
		}
		for k, v := range r.Known {
			if sum.Known[k] == 0 {
				sum.KnownText[k] = r.KnownText[k]
			}
			sum.Known[k] += v
		}
		if r.Sample != nil && len(sum.Samples) < 3 {
			sum.Samples = append(sum.Samples, r.Sample)
		}
		if r.HarnessErr != "" {
			sum.HarnessErrs = append(sum.HarnessErrs, fmt.Sprintf("run %d seed %d: %s", i, r.Seed, r.HarnessErr))
			if len(sum.HarnessErrs) >= 3 {
				break
			}
			continue
		}
		if r.Viol != nil {
			sum.Violations = append(sum.Violations, ViolationRecord{Index: i, Seed: r.Seed, Violation: r.Viol,
				Trace: r.Src.Trace(), Blobs: r.Blobs, EventLog: r.EventLog(), EventHash: fp})
			break // first violation of this worker is enough; the orchestrator picks the lowest index
		}
	}
	sum.Keys, sum.States, sum.Fingerprints = setToSlice(keys), setToSlice(states), setToSlice(fps)
	sum.WallS = time.Since(start).Seconds()
	return writeJSON(*out, sum)
}

// runWatchdog is the real-time bound of one run (VERIF_RUN_WATCHDOG_S, default 600 s).
func runWatchdog() time.Duration {
	if v, err := strconv.Atoi(os.Getenv("VERIF_RUN_WATCHDOG_S")); err == nil && v > 0 {
		return time.Duration(v) * time.Second
	}
	return 600 * time.Second
}

func setToSlice(m map[uint64]struct{}) []uint64 {
	out := make([]uint64, 0, len(m))
	for k := range m {
		out = append(out, k)
	}
	sort.Slice(out, func(i, j int) bool { return out[i] < out[j] })
	return out
}

func writeJSON(path string, v any) int {
	f := os.Stdout
	if path != "" {
		var err error
		f, err = os.Create(path)
		if err != nil {
			fmt.Fprintln(os.Stderr, err)
			return 2
		}
		defer f.Close()
	}
	enc := json.NewEncoder(f)
	if err := enc.Encode(v); err != nil {
		fmt.Fprintln(os.Stderr, err)
		return 2
	}
	return 0
}

// cmdShrink: read a ViolationRecord, confirm it re-executes deterministically, minimise it, and
// write a replay file.
func cmdShrink(args []string) int {
	fs := flag.NewFlagSet("shrink", flag.ExitOnError)
	id := fs.String("prop", "", "property id")
	tier := fs.String("tier", "quick", "tier")
	in := fs.String("in", "", "violation record (json)")
	out := fs.String("out", "", "replay file to write")
	known := fs.String("known", "", "known findings file")
	batch := fs.Uint64("seed", 1, "batch seed")
	maxExecs := fs.Int("max-execs", 400, "shrink budget (executions)")
	maxWall := fs.Duration("max-wall", 120*time.Second, "shrink budget (wall)")
	fs.Parse(args)
	c := mustCheck(*id)
	kf := LoadKnown(*known)
	b, err := os.ReadFile(*in)
	if err != nil {
		fmt.Fprintln(os.Stderr, err)
		return 2
	}
	var rec ViolationRecord
	if err := json.Unmarshal(b, &rec); err != nil {
		fmt.Fprintln(os.Stderr, err)
		return 2
	}
	// (1) confirm: the recorded trace (with its blobs) must fail the same way in this process.
	r0 := ExecTrace(c, *tier, rec.Index, rec.Seed, rec.Trace, rec.Blobs, kf)
	for attempt := 0; attempt < 5 && r0.HarnessErr == "" && r0.Viol == nil; attempt++ {
		// the trace is fixed; when the verdict is not, the code under test made a choice of its own
		// (it ranged over a map, say). A few more executions usually meet the same turn again.
		r0 = ExecTrace(c, *tier, rec.Index, rec.Seed, rec.Trace, rec.Blobs, kf)
	}
	if r0.HarnessErr != "" || r0.Viol == nil {
		fmt.Fprintf(os.Stderr, "HARNESS: recorded violation did not re-execute (got %v, harness err %q)\n", r0.Viol, r0.HarnessErr)
		return 2
	}
	if r0.Viol.Class != rec.Violation.Class {
		// Same property, other class (e.g. a multi-GiB allocation that trips the wall-clock bound on
		// a loaded machine and the allocation bound otherwise): what re-executes is what is reported.
		fmt.Fprintf(os.Stderr, "note: violation re-executed with class %s instead of %s; reporting the re-executed one\n", r0.Viol.Class, rec.Violation.Class)
		rec.Violation = r0.Viol
	}
	// Resource-class violations (a call that does not return, or allocates gigabytes) leave an
	// abandoned goroutine behind that keeps eating memory: every further execution in this process
	// risks the OOM killer. They are reported unminimised; the fresh-process replay confirms them.
	if rec.Violation.Class == "timeout" || rec.Violation.Class == "alloc-blowup" || rec.Violation.Class == "non-termination" {
		rf := &ReplayFile{Version: 1, Property: c.ID, World: c.World, Tier: *tier, Seed: rec.Seed, Index: rec.Index,
			BatchSeed: *batch, Choices: r0.Src.Trace(), Blobs: rec.Blobs, Violation: r0.Viol, EventLog: r0.EventLog(),
			EventHash: r0.Fingerprint(), Original: len(rec.Trace), ShrinkRun: 0}
		return writeJSON(*out, rf)
	}
	// (2) shrink
	best, execs := Shrink(c, *tier, rec.Index, rec.Seed, rec.Trace, rec.Violation, kf, *maxExecs, *maxWall)
	// (3) re-record the minimised trace so blobs, event log and hash belong to it. If the
	// minimised trace does not fail without the original blobs, fall back to the original.
	fin := ExecTrace(c, *tier, rec.Index, rec.Seed, best, nil, kf)
	blobs := fin.Blobs
	if fin.Viol == nil || fin.Viol.Class != rec.Violation.Class {
		best = rec.Trace
		fin = r0
		blobs = rec.Blobs
	}
	// A second execution with the recorded blobs gives the hash a fresh process must reproduce.
	fin2 := ExecTrace(c, *tier, rec.Index, rec.Seed, best, blobs, kf)
	if fin2.Viol == nil || fin2.Viol.Class != rec.Violation.Class {
		fmt.Fprintf(os.Stderr, "HARNESS: minimised trace is not stable under its own blobs\n")
		return 2
	}
	rf := &ReplayFile{Version: 1, Property: c.ID, World: c.World, Tier: *tier, Seed: rec.Seed, Index: rec.Index,
		BatchSeed: *batch, Choices: fin2.Src.Trace(), Blobs: blobs, Violation: fin2.Viol, EventLog: fin2.EventLog(),
		EventHash: fin2.Fingerprint(), Original: len(rec.Trace), ShrinkRun: execs}
	return writeJSON(*out, rf)
}

// warmup executes earlier runs of a batch exactly as their worker did.
func warmup(c *Check, tier string, batchSeed uint64, indices []int, kf []KnownFinding) {
	if len(indices) == 0 {
		return
	}
	plans := plansOf(c, tier)
	for _, i := range indices {
		var prefix Trace
		if i < len(plans) {
			prefix = plans[i]
		}
		ExecSeeded(c, tier, i, batchSeed, prefix, kf)
	}
}

// cmdExecOne executes one run of a batch (after optional warm-up runs) and reports how it ended.
// The orchestrator uses it to confirm that a run kills the process: then this command dies too.
func cmdExecOne(args []string) int {
	fs := flag.NewFlagSet("exec-one", flag.ExitOnError)
	id := fs.String("prop", "", "property id")
	tier := fs.String("tier", "quick", "tier")
	batch := fs.Uint64("seed", 1, "batch seed")
	index := fs.Int("index", 0, "run index")
	known := fs.String("known", "", "known findings file")
	warm := fs.String("warmup", "", "comma-separated run indices to execute first")
	fs.Parse(args)
	c := mustCheck(*id)
	kf := LoadKnown(*known)
	var idx []int
	for _, f := range strings.Split(*warm, ",") {
		if n, err := strconv.Atoi(f); err == nil {
			idx = append(idx, n)
		}
	}
	warmup(c, *tier, *batch, idx, kf)
	var prefix Trace
	if plans := plansOf(c, *tier); *index < len(plans) {
		prefix = plans[*index]
	}
	r := ExecSeeded(c, *tier, *index, *batch, prefix, kf)
	fmt.Printf("exec-one: run %d ended (violation=%v harness=%q)\n", *index, r.Viol != nil, r.HarnessErr)
	return 0
}

// cmdContext confirms a recorded violation after a warm-up of earlier runs of its batch and writes
// the (unminimised) replay file carrying that warm-up. Exit 0: reproduced; 3: not; 2: trouble.
func cmdContext(args []string) int {
	fs := flag.NewFlagSet("context", flag.ExitOnError)
	id := fs.String("prop", "", "property id")
	tier := fs.String("tier", "quick", "tier")
	in := fs.String("in", "", "violation record (json)")
	out := fs.String("out", "", "replay file to write")
	known := fs.String("known", "", "known findings file")
	batch := fs.Uint64("seed", 1, "batch seed")
	warm := fs.String("warmup", "", "comma-separated run indices to execute first")
	fs.Parse(args)
	c := mustCheck(*id)
	kf := LoadKnown(*known)
	b, err := os.ReadFile(*in)
	if err != nil {
		fmt.Fprintln(os.Stderr, err)
		return 2
	}
	var rec ViolationRecord
	if err := json.Unmarshal(b, &rec); err != nil {
		fmt.Fprintln(os.Stderr, err)
		return 2
	}
	var idx []int
	for _, f := range strings.Split(*warm, ",") {
		if f == "" {
			continue
		}
		n, err := strconv.Atoi(f)
		if err != nil {
			fmt.Fprintln(os.Stderr, err)
			return 2
		}
		idx = append(idx, n)
	}
	warmup(c, *tier, *batch, idx, kf)
	r := ExecTrace(c, *tier, rec.Index, rec.Seed, rec.Trace, rec.Blobs, kf)
	if r.HarnessErr != "" {
		fmt.Fprintf(os.Stderr, "HARNESS: %s\n", r.HarnessErr)
		return 2
	}
	if r.Viol == nil || r.Viol.Class != rec.Violation.Class {
		return 3
	}
	rf := &ReplayFile{Version: 1, Property: c.ID, World: c.World, Tier: *tier, Seed: rec.Seed, Index: rec.Index,
		BatchSeed: *batch, Choices: r.Src.Trace(), Blobs: rec.Blobs, Violation: r.Viol, EventLog: r.EventLog(),
		EventHash: r.Fingerprint(), Original: len(rec.Trace), ShrinkRun: 0, Warmup: idx}
	return writeJSON(*out, rf)
}

// cmdReplay re-executes a replay file. Exit 0: reproduced (same class, same event hash);
// exit 3: did not reproduce; exit 2: trouble.
func cmdReplay(args []string) int {
	fs := flag.NewFlagSet("replay", flag.ExitOnError)
	known := fs.String("known", "", "known findings file")
	verbose := fs.Bool("v", false, "print the event log")
	fs.Parse(args)
	if fs.NArg() != 1 {
		fmt.Fprintln(os.Stderr, "usage: replay [-v] <file>")
		return 2
	}
	b, err := os.ReadFile(fs.Arg(0))
	if err != nil {
		fmt.Fprintln(os.Stderr, err)
		return 2
	}
	var rf ReplayFile
	if err := json.Unmarshal(b, &rf); err != nil {
		fmt.Fprintln(os.Stderr, err)
		return 2
	}
	c := mustCheck(rf.Property)
	warmup(c, rf.Tier, rf.BatchSeed, rf.Warmup, LoadKnown(*known))
	r := ExecTrace(c, rf.Tier, rf.Index, rf.Seed, rf.Choices, rf.Blobs, LoadKnown(*known))
	if *verbose {
		for _, l := range r.EventLog() {
			fmt.Println("  ", l)
		}
	}
	if r.HarnessErr != "" {
		fmt.Fprintf(os.Stderr, "HARNESS: %s\n", r.HarnessErr)
		return 2
	}
	if r.Viol == nil {
		fmt.Printf("replay: no violation (expected %s)\n", rf.Violation)
		return 3
	}
	fmt.Printf("replay: %s\n", r.Viol)
	if r.Viol.Class != rf.Violation.Class {
		// "did not return within the bound" and "allocated beyond the bound" are two readings of one
		// resource blow-up; which bound trips first depends on the machine's load
		res := map[string]bool{"timeout": true, "alloc-blowup": true}
		if res[r.Viol.Class] && res[rf.Violation.Class] {
			fmt.Printf("replay: reproduced as %s (recorded as %s: same resource blow-up, other bound tripped first)\n", r.Viol.Class, rf.Violation.Class)
			return 0
		}
		fmt.Printf("replay: class differs (expected %s)\n", rf.Violation.Class)
		return 3
	}
	if r.Fingerprint() != rf.EventHash {
		fmt.Printf("replay: event hash differs (%s vs recorded %s)\n", r.Fingerprint(), rf.EventHash)
		return 3
	}
	fmt.Println("replay: reproduced exactly (same class, same event hash)")
	return 0
}
