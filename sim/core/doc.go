// Package core is the deterministic-simulation kernel shared by all worlds.
package core
