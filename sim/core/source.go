package core

import (
	"fmt"
)

// Choice is one decision taken by a run: a value 0 <= V < N drawn under a label.
type Choice struct {
	L string `json:"l"`
	N int    `json:"n"`
	V int    `json:"v"`
}

// Trace is the complete decision record of a run. A run is a pure function of its trace (and the
// code under test).
type Trace []Choice

// Source is the only place a run may take a decision from.
type Source interface {
	// Intn returns 0 <= v < n. n <= 1 returns 0 without consuming anything.
	Intn(n int, label string) int
	// Trace returns every choice made so far.
	Trace() Trace
}

// splitmix64 is the PRNG behind every seeded run. It is implemented here (rather than math/rand)
// so a seed means the same execution under every Go release used by the harness.
type splitmix64 struct{ s uint64 }

func (p *splitmix64) next() uint64 {
	p.s += 0x9e3779b97f4a7c15
	z := p.s
	z = (z ^ (z >> 30)) * 0xbf58476d1ce4e5b9
	z = (z ^ (z >> 27)) * 0x94d049bb133111eb
	return z ^ (z >> 31)
}

// Mix derives a per-run seed from the batch seed, a property id and a run index.
func Mix(seed uint64, property string, index int) uint64 {
	p := splitmix64{s: seed}
	h := p.next()
	for _, c := range []byte(property) {
		h = (h ^ uint64(c)) * 0x100000001b3
	}
	q := splitmix64{s: h ^ (uint64(index)+1)*0xd6e8feb86659fd93}
	return q.next()
}

// prefixedSource replays a forced prefix and continues with the PRNG. With an empty prefix it is
// a plain seeded source; with strict=true and an exhausted prefix it yields 0 ("simplest choice").
type prefixedSource struct {
	prefix Trace
	pos    int
	rng    splitmix64
	strict bool
	trace  Trace
}

// NewSeeded returns a source drawing from the PRNG seeded with seed after replaying prefix.
func NewSeeded(seed uint64, prefix Trace) Source {
	return &prefixedSource{prefix: prefix, rng: splitmix64{s: seed}}
}

// NewReplay returns a source that replays tr and then answers 0 forever.
func NewReplay(tr Trace) Source {
	return &prefixedSource{prefix: tr, strict: true}
}

func (s *prefixedSource) Intn(n int, label string) int {
	if n <= 1 {
		return 0
	}
	var v int
	if s.pos < len(s.prefix) {
		// A recorded value is reduced into range so shrunk or edited traces stay executable.
		v = s.prefix[s.pos].V
		if v < 0 {
			v = 0
		}
		v %= n
		s.pos++
	} else if s.strict {
		v = 0
	} else {
		v = int(s.rng.next() % uint64(n))
	}
	s.trace = append(s.trace, Choice{L: label, N: n, V: v})
	return v
}

func (s *prefixedSource) Trace() Trace { return append(Trace(nil), s.trace...) }

// String renders a trace compactly for logs and evidence samples.
func (t Trace) String() string {
	out := ""
	for i, c := range t {
		if i > 0 {
			out += " "
		}
		out += fmt.Sprintf("%s=%d/%d", c.L, c.V, c.N)
	}
	return out
}

// Values returns only the chosen values.
func (t Trace) Values() []int {
	out := make([]int, len(t))
	for i, c := range t {
		out[i] = c.V
	}
	return out
}

// DetReader is a deterministic io.Reader (splitmix64 stream) used wherever the code under test
// wants randomness for salts, serials or UUIDs. Key bytes never come from here (see keypool).
type DetReader struct{ p splitmix64 }

// NewDetReader returns a reader whose stream is determined by seed.
func NewDetReader(seed uint64) *DetReader { return &DetReader{p: splitmix64{s: seed}} }

func (d *DetReader) Read(b []byte) (int, error) {
	for i := 0; i < len(b); {
		v := d.p.next()
		for k := 0; k < 8 && i < len(b); k++ {
			b[i] = byte(v >> (8 * k))
			i++
		}
	}
	return len(b), nil
}
