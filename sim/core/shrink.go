package core

import "time"

// ExecTrace executes c once, deciding everything from tr (then zeros).
func ExecTrace(c *Check, tier string, index int, seed uint64, tr Trace, blobs map[string][]byte, known []KnownFinding) *Run {
	r := NewRun(c.ID, tier, index, seed, NewReplay(tr), known)
	r.ReplayBlobs = blobs
	Execute(r, c.Body)
	return r
}

// ExecSeeded executes run number index of a batch: forced prefix (may be nil) then PRNG.
func ExecSeeded(c *Check, tier string, index int, batchSeed uint64, prefix Trace, known []KnownFinding) *Run {
	seed := Mix(batchSeed, c.ID, index)
	r := NewRun(c.ID, tier, index, seed, NewSeeded(seed, prefix), known)
	Execute(r, c.Body)
	return r
}

// Shrink minimises a failing trace: cut the tail, delete blocks, lower values — accepting a
// candidate only if it still violates the same property with the same class. Recorded blobs are
// not used while shrinking (they belong to the original byte stream); the final trace is
// re-recorded by the caller.
func Shrink(c *Check, tier string, index int, seed uint64, tr Trace, target *Violation, known []KnownFinding, maxExecs int, maxWall time.Duration) (Trace, int) {
	start := time.Now()
	execs := 0
	best := append(Trace(nil), tr...)
	try := func(cand Trace) bool {
		if execs >= maxExecs || time.Since(start) > maxWall {
			return false
		}
		execs++
		r := ExecTrace(c, tier, index, seed, cand, nil, known)
		if r.HarnessErr == "" && r.Viol != nil && r.Viol.Class == target.Class {
			// Keep what the run actually consumed: it is never longer than the candidate plus
			// zero-padding, and trailing zeros are implied.
			used := r.Src.Trace()
			for len(used) > 0 && used[len(used)-1].V == 0 {
				used = used[:len(used)-1]
			}
			if len(used) <= len(cand) {
				best = used
			} else {
				best = cand
			}
			return true
		}
		return false
	}
	// Normalise first (drops unused tail / trailing zeros).
	try(best)
	for progress := true; progress && execs < maxExecs && time.Since(start) <= maxWall; {
		progress = false
		// 1. cut the tail
		for chunk := len(best) / 2; chunk >= 1; chunk /= 2 {
			for len(best) >= chunk && chunk >= 1 {
				if !try(append(Trace(nil), best[:len(best)-chunk]...)) {
					break
				}
				progress = true
			}
		}
		// 2. delete blocks
		for chunk := len(best) / 2; chunk >= 1; chunk /= 2 {
			for at := 0; at+chunk <= len(best); {
				cand := append(append(Trace(nil), best[:at]...), best[at+chunk:]...)
				if try(cand) {
					progress = true
				} else {
					at += chunk
				}
			}
		}
		// 2b. zero blocks (keeps alignment: useful for schedules and fault plans)
		for chunk := len(best) / 2; chunk >= 2; chunk /= 2 {
			for at := 0; at+chunk <= len(best); at += chunk {
				nonzero := false
				for _, c := range best[at : at+chunk] {
					if c.V != 0 {
						nonzero = true
					}
				}
				if !nonzero {
					continue
				}
				cand := append(Trace(nil), best...)
				for i := at; i < at+chunk && i < len(cand); i++ {
					cand[i].V = 0
				}
				if try(cand) {
					progress = true
				}
			}
		}
		// 3. lower values
		for i := 0; i < len(best); i++ {
			if best[i].V == 0 {
				continue
			}
			for _, nv := range []int{0, best[i].V / 2, best[i].V - 1} {
				if i >= len(best) || nv >= best[i].V {
					continue
				}
				cand := append(Trace(nil), best...)
				cand[i].V = nv
				if try(cand) {
					progress = true
					break
				}
			}
		}
	}
	return best, execs
}
