package core

import (
	"sort"
	"time"
)

// Component is a row of the real-code / stub table reported in evidence.
type Component struct {
	Name string `json:"name"`
	Kind string `json:"kind"` // "real" or "stub"
	Note string `json:"note,omitempty"`
}

// Budget bounds a batch.
type Budget struct {
	Runs int           // random runs after the planned (swept) ones
	Wall time.Duration // cap on exploration wall time
}

// Check is a property check: a world plus an oracle, executed once per run.
type Check struct {
	ID          string
	World       string
	Level       string // exploration | fault_enumeration
	Rule        string
	Assumptions []string
	Components  []Component
	// Plans returns forced trace prefixes executed before the random runs (the swept part of a
	// fault_enumeration check). Must be deterministic.
	Plans func(tier string) []Trace
	// Budget for the tier.
	Budget func(tier string) Budget
	// Body executes one run.
	Body func(r *Run)
	// Exhaustive: text describing which sub-space is enumerated completely (empty if none).
	Exhaustive string
	// Init is called once per process before any run (e.g. to build snapshots).
	Init func()
}

var registry = map[string]*Check{}

// Register adds a check to the process registry.
func Register(c *Check) { registry[c.ID] = c }

// Lookup returns a registered check.
func Lookup(id string) *Check { return registry[id] }

// IDs lists registered checks.
func IDs() []string {
	var out []string
	for k := range registry {
		out = append(out, k)
	}
	sort.Strings(out)
	return out
}

// StdBudget is a helper for the common quick/thorough pair.
func StdBudget(quickRuns int, quickWall time.Duration, thoroughRuns int, thoroughWall time.Duration) func(string) Budget {
	return func(tier string) Budget {
		if tier == "thorough" {
			return Budget{Runs: thoroughRuns, Wall: thoroughWall}
		}
		return Budget{Runs: quickRuns, Wall: quickWall}
	}
}
