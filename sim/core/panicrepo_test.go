package core

import "testing"

func TestPanickedInRepo(t *testing.T) {
	repo := "goroutine 1 [running]:\nruntime/debug.Stack()\n\t/usr/lib/go/src/runtime/debug/stack.go:26 +0x5e\nverifsim/core.Execute.func2()\n\t/verif/sim/core/run.go:245 +0x50\npanic({0xb7f020?, 0xc000a840f0?})\n\t/usr/lib/go/src/runtime/panic.go:785 +0x132\ngithub.com/google/gce-tcb-verifier/endorse.addEndorsementEntry({0xd00228, 0xc000a45a40}, {0xc0009dbce0, 0x2, 0x2}, 0xc0009c3e60)\n\t/repo/endorse/commit.go:199 +0x4b1\nverifsim/worldp.endorseLib(...)\n\t/verif/sim/worldp/publisher.go:178 +0x645\n"
	if got := panickedInRepo(repo); got != "endorse.addEndorsementEntry" {
		t.Errorf("repo panic: got %q", got)
	}
	harness := "goroutine 1 [running]:\nruntime/debug.Stack()\n\t/x\nverifsim/core.Execute.func2()\n\t/x\npanic({0x1, 0x2})\n\t/x\nverifsim/seams.(*SimVCS).enter(...)\n\t/x\ngithub.com/google/gce-tcb-verifier/endorse.tryChange(...)\n\t/x\n"
	if got := panickedInRepo(harness); got != "" {
		t.Errorf("harness panic: got %q", got)
	}
	lib := "goroutine 1 [running]:\npanic({0x1, 0x2})\n\t/x\nruntime.goPanicIndex(...)\n\t/x\ngoogle.golang.org/protobuf/proto.Marshal(...)\n\t/x\ngithub.com/google/gce-tcb-verifier/sign/gcsca.(*CertificateAuthority).Finalize(0x1, {0x2})\n\t/x\nverifsim/worlda.x()\n\t/x\n"
	if got := panickedInRepo(lib); got != "gcsca.(*CertificateAuthority).Finalize" {
		t.Errorf("library panic beneath repo code: got %q", got)
	}
}
