// Package attest fabricates the attestations of the simulated fleet: fully populated SEV-SNP
// report protos with go-sev-guest's test VCEK, and TDX quotes derived from go-tdx-guest's sample
// quote. Hardware signatures are not part of any property here.
package attest

import (
	"sync"
	"time"

	"github.com/google/gce-tcb-verifier/sev"
	"github.com/google/go-sev-guest/abi"
	spb "github.com/google/go-sev-guest/proto/sevsnp"
	sgtest "github.com/google/go-sev-guest/testing"
	tabi "github.com/google/go-tdx-guest/abi"
	tpb "github.com/google/go-tdx-guest/proto/tdx"
	tdtest "github.com/google/go-tdx-guest/testing/testdata"
	"google.golang.org/protobuf/proto"
)

var (
	vcekOnce sync.Once
	vcekRaw  []byte
)

// Vcek returns a test VCEK certificate (go-sev-guest's test chain), generated once per process.
func Vcek() []byte {
	vcekOnce.Do(func() {
		s, err := sgtest.DefaultTestOnlyCertChain("Milan", time.Date(2024, 3, 15, 0, 0, 0, 0, time.UTC))
		if err != nil {
			panic(err)
		}
		vcekRaw = s.Vcek.Raw
	})
	return vcekRaw
}

// ProdPolicy is the guest policy GCE endorsements carry.
var ProdPolicy = abi.SnpPolicyToBytes(abi.SnpPolicy{SMT: true, MigrateMA: true})

// SnpReport fabricates a fully populated report proto carrying meas.
func SnpReport(meas []byte) *spb.Report {
	return &spb.Report{
		Signature: make([]byte, abi.SignatureSize), Version: 2, GuestSvn: 0, Policy: ProdPolicy,
		ReportData: make([]byte, abi.ReportDataSize), FamilyId: make([]byte, abi.FamilyIDSize), ImageId: make([]byte, abi.ImageIDSize),
		Measurement: append([]byte(nil), meas...), IdKeyDigest: make([]byte, abi.IDKeyDigestSize), AuthorKeyDigest: make([]byte, abi.AuthorKeyDigestSize),
		HostData: make([]byte, abi.HostDataSize), ReportId: make([]byte, abi.ReportIDSize), ReportIdMa: make([]byte, abi.ReportIDMASize),
		ChipId: make([]byte, abi.ChipIDSize), SignatureAlgo: 1,
	}
}

// SnpAttestation fabricates an attestation: report + VCEK + optional GCE certificate-table entry.
func SnpAttestation(meas, certTableEntry []byte) *spb.Attestation {
	at := &spb.Attestation{Report: SnpReport(meas), CertificateChain: &spb.CertificateChain{VcekCert: Vcek()}}
	if certTableEntry != nil {
		at.CertificateChain.Extras = map[string][]byte{sev.GCEFwCertGUID: certTableEntry}
	}
	return at
}

var (
	tdxOnce  sync.Once
	tdxQuote *tpb.QuoteV4
)

// TdxQuote fabricates a quote proto carrying mrtd (go-tdx-guest's sample quote with MRTD replaced).
func TdxQuote(mrtd []byte) *tpb.QuoteV4 {
	tdxOnce.Do(func() {
		q, err := tabi.QuoteToProto(tdtest.RawQuote)
		if err != nil {
			panic(err)
		}
		tdxQuote = q.(*tpb.QuoteV4)
	})
	q := proto.Clone(tdxQuote).(*tpb.QuoteV4)
	q.TdQuoteBody.MrTd = append([]byte(nil), mrtd...)
	return q
}

// TdxQuoteRaw renders a quote in raw ABI form.
func TdxQuoteRaw(q *tpb.QuoteV4) []byte {
	b, err := tabi.QuoteToAbiBytes(q)
	if err != nil {
		panic(err)
	}
	return b
}
