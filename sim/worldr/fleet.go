// Package worldr simulates the relying-party side: verifiers with their own roots and clocks
// receiving endorsements and attestations over a byzantine channel, a bucket served by a simulated
// network, per-VM event logs / efivarfs / certificate tables (properties C01, C02, C07, C09, C16).
package worldr

import (
	"bytes"
	"crypto"
	"crypto/rand"
	"crypto/rsa"
	"crypto/sha256"
	"crypto/x509"
	"crypto/x509/pkix"
	"fmt"
	"math/big"
	"time"

	epb "github.com/google/gce-tcb-verifier/proto/endorsement"
	"github.com/google/gce-tcb-verifier/verify"
	spb "github.com/google/go-sev-guest/proto/sevsnp"
	tpb "github.com/google/go-tdx-guest/proto/tdx"
	"google.golang.org/protobuf/proto"

	"verifsim/attest"
	"verifsim/core"
	"verifsim/images"
	"verifsim/keypool"
	"verifsim/seams"
	"verifsim/worlda"
	"verifsim/worldp"
)

// Party is one signing authority of the simulated world with its key history.
type Party struct {
	A        *worlda.Authority
	VCS      *seams.SimVCS
	Root     *x509.Certificate
	RootKey  *rsa.PrivateKey
	Issued   []*Issued
	OldCerts []*KeyCert // certificates of rotated-away keys (with the keys, which an attacker may have kept)
}

// KeyCert is a signing key with its certificate.
type KeyCert struct {
	Key  *rsa.PrivateKey
	Cert *x509.Certificate
}

// Issued is one genuine endorsement.
type Issued struct {
	Bytes  []byte
	Proto  *epb.VMLaunchEndorsement
	Golden *epb.VMGoldenMeasurement
	Cert   *x509.Certificate
	Image  *images.Image
	Req    worldp.Req
	At     time.Time
}

// NewParty bootstraps an authority (memkm+memca, library calls) with rotations drawn by the run.
func NewParty(r *core.Run, label string, rotations int) *Party {
	a := worlda.NewAuthority(r, worlda.Config{KM: "memkm", CA: "memca"}, seams.NewPlanNone(r))
	p := &Party{A: a, VCS: seams.NewSimVCS(r, "/"+label)}
	if err, _ := a.Bootstrap(worlda.BootArgs{RootCN: "root-" + label, SignCN: "signer-" + label}); err != nil {
		panic(fmt.Sprintf("world R: bootstrap of %s failed: %v", label, err))
	}
	p.refresh()
	for i := 0; i < rotations; i++ {
		p.Rotate(r)
	}
	return p
}

func (p *Party) refresh() {
	h := p.A.CheckHealth(p.A.Now)
	if !h.Healthy() {
		panic("world R: authority unhealthy: " + h.String())
	}
	p.Root = h.Root
	p.RootKey = p.A.Signer.Keys["root"]
}

// Current returns the live signing key and its certificate.
func (p *Party) Current() *KeyCert {
	h := p.A.CheckHealth(p.A.Now)
	return &KeyCert{Key: p.A.Signer.Keys[h.Primary], Cert: h.Cert}
}

// Rotate advances the clock and rotates the signing key, remembering the old key and certificate.
func (p *Party) Rotate(r *core.Run) {
	old := p.Current()
	p.A.Now = p.A.Now.Add(time.Duration(30+r.Intn(700, "rotate-after-days")) * 24 * time.Hour)
	if err, _ := p.A.Rotate(worlda.RotArgs{}); err != nil {
		panic(fmt.Sprintf("world R: rotation failed: %v", err))
	}
	p.OldCerts = append(p.OldCerts, old)
}

// Endorse issues a genuine endorsement through the real pipeline.
func (p *Party) Endorse(r *core.Run, q worldp.Req) *Issued {
	q.OutDir = "e"
	q.Candidate = fmt.Sprintf("e%d", len(p.Issued))
	q.Timestamp = p.A.Now
	if q.ClSpec == 0 && len(q.Commit) == 0 {
		q.ClSpec = 99
	}
	if _, err := worldp.Endorse(r, p.A, p.VCS, q, ""); err != nil {
		panic(fmt.Sprintf("world R: endorse failed: %v", err))
	}
	raw := p.VCS.Head[p.VCS.Root+"/e/"+q.Candidate+".binarypb"]
	is := &Issued{Bytes: raw, Proto: &epb.VMLaunchEndorsement{}, Golden: &epb.VMGoldenMeasurement{}, Image: q.Image, Req: q, At: p.A.Now}
	if err := proto.Unmarshal(raw, is.Proto); err != nil {
		panic(err)
	}
	if err := proto.Unmarshal(is.Proto.SerializedUefiGolden, is.Golden); err != nil {
		panic(err)
	}
	is.Cert, _ = x509.ParseCertificate(is.Golden.Cert)
	p.Issued = append(p.Issued, is)
	return is
}

// Sign produces a signature over payload with key using the given scheme.
// scheme: 0 PSS/SHA-256/salt=32 (the genuine one), 1 PKCS#1 v1.5 SHA-256, 2 PSS SHA-384,
// 3 PSS SHA-256 salt=0, 4 PSS SHA-256 salt=20.
func Sign(key *rsa.PrivateKey, payload []byte, scheme int) []byte {
	d := sha256.Sum256(payload)
	var sig []byte
	var err error
	switch scheme {
	case 1:
		sig, err = rsa.SignPKCS1v15(rand.Reader, key, crypto.SHA256, d[:])
	case 2:
		h := crypto.SHA384.New()
		h.Write(payload)
		sig, err = rsa.SignPSS(rand.Reader, key, crypto.SHA384, h.Sum(nil), &rsa.PSSOptions{SaltLength: rsa.PSSSaltLengthEqualsHash})
	case 3:
		sig, err = rsa.SignPSS(core.NewDetReader(1), key, crypto.SHA256, d[:], &rsa.PSSOptions{SaltLength: 0})
	case 4:
		sig, err = rsa.SignPSS(rand.Reader, key, crypto.SHA256, d[:], &rsa.PSSOptions{SaltLength: 20})
	default:
		sig, err = rsa.SignPSS(rand.Reader, key, crypto.SHA256, d[:], &rsa.PSSOptions{SaltLength: rsa.PSSSaltLengthEqualsHash})
	}
	if err != nil {
		panic(err)
	}
	return sig
}

// ForgeCert makes a signing-profile certificate for key, issued by issuer (nil = self-signed)
// with issuerKey, valid [nb, na].
func ForgeCert(key *rsa.PrivateKey, issuer *x509.Certificate, issuerKey *rsa.PrivateKey, nb, na time.Time, serial int64) *x509.Certificate {
	return ForgeCertAlg(key, issuer, issuerKey, nb, na, serial, x509.SHA256WithRSAPSS)
}

// ForgeCertAlg is ForgeCert with the algorithm the issuer signs the certificate with.
func ForgeCertAlg(key *rsa.PrivateKey, issuer *x509.Certificate, issuerKey *rsa.PrivateKey, nb, na time.Time, serial int64, alg x509.SignatureAlgorithm) *x509.Certificate {
	t := &x509.Certificate{
		SerialNumber: big.NewInt(serial), Subject: pkix.Name{CommonName: "forged-signer", SerialNumber: fmt.Sprint(serial)},
		NotBefore: nb, NotAfter: na, KeyUsage: x509.KeyUsageDigitalSignature, SignatureAlgorithm: alg,
		BasicConstraintsValid: true,
	}
	parent := issuer
	if parent == nil {
		parent = t
		issuerKey = key
	}
	der, err := x509.CreateCertificate(rand.Reader, t, parent, &key.PublicKey, issuerKey)
	if err != nil {
		panic(err)
	}
	c, err := x509.ParseCertificate(der)
	if err != nil {
		panic(err)
	}
	return c
}

// OtherRoot makes the self-signed root of another authority, one that certifies its signing keys
// through intermediate CAs (no path-length limit), valid like root.
func OtherRoot(like *x509.Certificate, key *rsa.PrivateKey) *x509.Certificate {
	t := &x509.Certificate{SerialNumber: big.NewInt(76), Subject: pkix.Name{CommonName: "other-authority-root", SerialNumber: "76"}, NotBefore: like.NotBefore, NotAfter: like.NotAfter,
		IsCA: true, BasicConstraintsValid: true, KeyUsage: x509.KeyUsageCertSign | x509.KeyUsageCRLSign, SignatureAlgorithm: x509.SHA256WithRSAPSS}
	der, err := x509.CreateCertificate(rand.Reader, t, t, &key.PublicKey, key)
	if err != nil {
		panic(err)
	}
	c, err := x509.ParseCertificate(der)
	if err != nil {
		panic(err)
	}
	return c
}

// IntermediateCA makes a CA certificate for key issued by root: an authority that certifies its
// signing keys through an intermediate.
func IntermediateCA(root *x509.Certificate, rootKey, key *rsa.PrivateKey) *x509.Certificate {
	t := &x509.Certificate{SerialNumber: big.NewInt(77), Subject: pkix.Name{CommonName: "intermediate-ca", SerialNumber: "77"}, NotBefore: root.NotBefore, NotAfter: root.NotAfter,
		IsCA: true, BasicConstraintsValid: true, KeyUsage: x509.KeyUsageCertSign | x509.KeyUsageCRLSign, SignatureAlgorithm: x509.SHA256WithRSAPSS}
	der, err := x509.CreateCertificate(rand.Reader, t, root, &key.PublicKey, rootKey)
	if err != nil {
		panic(err)
	}
	c, err := x509.ParseCertificate(der)
	if err != nil {
		panic(err)
	}
	return c
}

// LookalikeRoot makes a self-signed CA certificate that copies the subject, serial and validity of
// root but certifies key: same names, other key.
func LookalikeRoot(root *x509.Certificate, key *rsa.PrivateKey) *x509.Certificate {
	t := &x509.Certificate{SerialNumber: root.SerialNumber, Subject: root.Subject, NotBefore: root.NotBefore, NotAfter: root.NotAfter,
		IsCA: true, BasicConstraintsValid: true, MaxPathLenZero: true, KeyUsage: x509.KeyUsageCertSign | x509.KeyUsageCRLSign,
		SignatureAlgorithm: x509.SHA256WithRSAPSS}
	der, err := x509.CreateCertificate(rand.Reader, t, t, &key.PublicKey, key)
	if err != nil {
		panic(err)
	}
	c, err := x509.ParseCertificate(der)
	if err != nil {
		panic(err)
	}
	return c
}

// Reassemble builds endorsement bytes from a golden measurement re-marshalled with the given
// certificate, signed with key under scheme.
func Reassemble(g *epb.VMGoldenMeasurement, cert *x509.Certificate, key *rsa.PrivateKey, scheme int) []byte {
	c := proto.Clone(g).(*epb.VMGoldenMeasurement)
	if cert != nil {
		c.Cert = cert.Raw
	}
	payload, err := proto.Marshal(c)
	if err != nil {
		panic(err)
	}
	out, _ := proto.Marshal(&epb.VMLaunchEndorsement{SerializedUefiGolden: payload, Signature: Sign(key, payload, scheme)})
	return out
}

// AttackerKey returns a pool key not used by any authority of the run.
func AttackerKey(p *Party, n int) *rsa.PrivateKey {
	pool := keypool.Pool()
	return pool[(p.A.Keygen.Base+len(pool)-1-n)%len(pool)]
}

// ---------------------------------------------------------------------------------------------
// attestations (fabricated protos; package attest)

// ProdPolicy is the guest policy GCE endorsements carry.
var ProdPolicy = attest.ProdPolicy

// SnpReport fabricates a fully populated report proto carrying meas.
func SnpReport(meas []byte) *spb.Report { return attest.SnpReport(meas) }

// SnpAttestation fabricates an attestation: report + VCEK + optional GCE certificate-table entry.
func SnpAttestation(meas, certTableEntry []byte) *spb.Attestation {
	return attest.SnpAttestation(meas, certTableEntry)
}

// TdxQuote fabricates a quote proto carrying mrtd.
func TdxQuote(mrtd []byte) *tpb.QuoteV4 { return attest.TdxQuote(mrtd) }

// TdxQuoteRaw renders a quote in raw ABI form.
func TdxQuoteRaw(q *tpb.QuoteV4) []byte { return attest.TdxQuoteRaw(q) }

func vcek() []byte { return attest.Vcek() }

// ---------------------------------------------------------------------------------------------
// network

// SimNet is the simulated HTTPS getter: a map of URL -> body, a request log, and failure modes.
type SimNet struct {
	R        *core.Run
	Objects  map[string][]byte
	Requests []string
	FailAll  bool
	// FailNext makes the next k requests fail (a transient outage); OnFault is told about each.
	FailNext int
	OnFault  func()
	// Yield, when set, is called inside Get (a natural scheduling point for C09).
	Yield func(site string)
}

// NewSimNet returns an empty network.
func NewSimNet(r *core.Run) *SimNet { return &SimNet{R: r, Objects: map[string][]byte{}} }

// Get implements verify.HTTPSGetter / trust.HTTPSGetter.
func (n *SimNet) Get(url string) ([]byte, error) {
	n.Requests = append(n.Requests, url)
	if n.Yield != nil {
		n.Yield("net.Get")
	}
	if n.R != nil {
		n.R.Eventf("net GET %s", shortURL(url))
	}
	if n.FailAll {
		return nil, fmt.Errorf("simnet: network unreachable")
	}
	if n.FailNext > 0 {
		n.FailNext--
		if n.R != nil {
			n.R.Fault("net-transient", "%s", shortURL(url))
		}
		if n.OnFault != nil {
			n.OnFault()
		}
		return nil, fmt.Errorf("simnet: connection reset (transient)")
	}
	b, ok := n.Objects[url]
	if !ok {
		return nil, fmt.Errorf("simnet: 404 %s", url)
	}
	return append([]byte(nil), b...), nil
}

func shortURL(u string) string {
	if len(u) > 90 {
		return u[:60] + "..." + u[len(u)-24:]
	}
	return u
}

// Publish stores an endorsement under the bucket URL of every SNP measurement and MRTD it lists.
func (n *SimNet) Publish(is *Issued, body []byte) {
	for _, m := range is.Golden.GetSevSnp().GetMeasurements() {
		n.Objects[SnpURL(m)] = body
	}
	if m := is.Golden.GetSevSnp().GetSvsmMeasurement(); len(m) > 0 {
		n.Objects[SnpURL(m)] = body
	}
	for _, m := range is.Golden.GetTdx().GetMeasurements() {
		n.Objects[TdxURL(m.GetMrtd())] = body
	}
}

// SnpURL is the bucket URL the harness expects for an SNP measurement (computed independently of
// the repository's naming functions).
func SnpURL(meas []byte) string {
	return fmt.Sprintf("https://storage.googleapis.com/gce_tcb_integrity/ovmf_x64_csm/sevsnp/%x.binarypb", meas)
}

// TdxURL is the bucket URL the harness expects for an MRTD.
func TdxURL(mrtd []byte) string {
	return fmt.Sprintf("https://storage.googleapis.com/gce_tcb_integrity/ovmf_x64_csm/tdx/%x.binarypb", mrtd)
}

// Pool builds a CertPool.
func Pool(certs ...*x509.Certificate) *x509.CertPool {
	p := x509.NewCertPool()
	for _, c := range certs {
		if c != nil {
			p.AddCert(c)
		}
	}
	return p
}

var _ = bytes.Equal
var _ verify.HTTPSGetter = (*SimNet)(nil)
