package worldr

import (
	"bytes"
	"context"
	"crypto/ecdsa"
	"crypto/ed25519"
	"crypto/elliptic"
	"crypto/x509"
	"crypto/x509/pkix"
	"encoding/pem"
	"fmt"
	spb "github.com/google/go-sev-guest/proto/sevsnp"
	"math/big"
	"os"
	"path/filepath"
	"time"

	"github.com/google/gce-tcb-verifier/cmd/output"
	"github.com/google/gce-tcb-verifier/gcetcbendorsement"
	gcmd "github.com/google/gce-tcb-verifier/gcetcbendorsement/cmd"
	epb "github.com/google/gce-tcb-verifier/proto/endorsement"
	sops "github.com/google/gce-tcb-verifier/sign/ops"
	styp "github.com/google/gce-tcb-verifier/sign/types"
	"github.com/google/gce-tcb-verifier/verify"
	tpmpb "github.com/google/go-tpm-tools/proto/attest"
	"google.golang.org/protobuf/proto"

	"verifsim/core"
	"verifsim/gcli"
	"verifsim/images"
	"verifsim/keypool"
	"verifsim/refv"
	"verifsim/worldp"
)

func init() {
	core.Register(&core.Check{
		ID: "C01", World: "R (relying party)", Level: "exploration",
		Rule: "one evaluation = one verification/validation call of an entry point (verify.Endorsement, verify.EndorsementProto, sops.VerifySignatureFromCA, the SNP validator closure with blob from certificate table / getter / options, SevValidate with endorsement given / in extras / from the bucket, TdxValidate, the verify / sev validate / tdx validate cobra commands) with a delivered endorsement, a root set and a verification time; " +
			"the endorsement comes from a live authority history (rotations, destroyed keys, a second authority) through a byzantine channel: byte corruption of blob / payload / signature / certificate, certificate swaps, re-signing with uncertified / foreign-certified / rotated-away keys or other signature schemes, replays outside the certificate's validity; roots in {right, foreign, both, empty, nil}; times at and around NotBefore/NotAfter with clock skew; " +
			"oracle: every ACCEPTED delivery must pass the independent reference verifier; non-trivial = delivery differs from the genuine one or roots/time are not the matching ones; distinct by (entry point, operator, root-set kind, time class, outcome)",
		Assumptions: []string{
			"reference verifier = weakest reading: PSS/SHA-256 (any salt) by the embedded certificate's key over the carried payload, certificate signed by (or equal to) a caller root, time within the certificate's validity",
			"hardware report/quote signatures are not part of the property; attestations are fabricated protos",
			"TdxValidate without a supplied endorsement is excluded (it ignores opts.Getter and would open a real socket)",
			"the worker's system trust store (SSL_CERT_FILE) is made to contain the simulated authority's roots, so a verifier that falls back to it when the caller passes no roots is observable",
		},
		Components: []core.Component{
			{Name: "verify.*, gcetcbendorsement.SevValidate/TdxValidate/SevPolicy/TdxPolicy, gcetcbendorsement/cmd verify|sev validate|tdx validate", Kind: "real", Note: "CLI through hook H2 (Backend injection)"},
			{Name: "go-sev-guest / go-tdx-guest validate", Kind: "real", Note: "field validation only"},
			{Name: "signing authorities and the endorse pipeline", Kind: "real"},
			{Name: "network (bucket), file IO, clock", Kind: "stub", Note: "SimNet, in-memory IO, simulated time"},
			{Name: "reference verifier", Kind: "stub", Note: "refv"},
		},
		Budget: core.StdBudget(2500, 100*time.Second, 400000, 9*time.Minute),
		Body:   runC01,
		Init:   c01SystemRoots,
	})
}

// c01SystemRoots makes the host's system trust store (what crypto/x509 falls back to when a
// caller passes no roots) contain the simulated authority's root for every key of the pool, so
// that "no roots given" can never be mistaken for "trust whatever the machine trusts" unnoticed.
func c01SystemRoots() {
	dir, err := os.MkdirTemp("", "verifsim-sysroots-")
	if err != nil {
		panic(err)
	}
	core.OnExit(func() { os.RemoveAll(dir) })
	var bundle []byte
	for b := range keypool.Pool() {
		r := core.NewRun("C01", "init", -1, 0, core.NewReplay(core.Trace{{L: "keypool-base", N: len(keypool.Pool()), V: b}}), nil)
		core.Execute(r, func(r *core.Run) { bundle = append(bundle, pemOf(NewParty(r, "a", 0).Root)...) })
	}
	file := filepath.Join(dir, "roots.pem")
	if err := os.WriteFile(file, bundle, 0o644); err != nil {
		panic(err)
	}
	os.MkdirAll(filepath.Join(dir, "empty"), 0o755)
	os.Setenv("SSL_CERT_FILE", file)
	os.Setenv("SSL_CERT_DIR", filepath.Join(dir, "empty"))
}

// memIO is the in-memory cmd.IO double (package gcli).
type memIO = gcli.MemIO

func newMemIO() *memIO { return gcli.NewMemIO() }

// runCLI runs the gcetcbendorsement cobra app with a simulated backend.
func runCLI(b *gcmd.Backend, args ...string) error { return gcli.Run(b, args...) }

func pemOf(certs ...*x509.Certificate) []byte {
	var b []byte
	for _, c := range certs {
		b = append(b, pem.EncodeToMemory(&pem.Block{Type: "CERTIFICATE", Bytes: c.Raw})...)
	}
	return b
}

// delivery is what the channel hands the verifier.
type delivery struct {
	bytes   []byte
	op      string
	genuine bool
	base    *Issued
}

func deliver(r *core.Run, a, f *Party, base *Issued) delivery {
	d := delivery{base: base}
	cur := a.Current()
	switch k := r.Intn(18, "channel-op"); k {
	case 0, 1:
		d.bytes, d.op, d.genuine = base.Bytes, "genuine", true
	case 2:
		d.bytes, d.op = Corrupt(r, base.Bytes, "blob")
		d.op = "blob:" + d.op
	case 3: // corrupt inside one field, keep the container well-formed
		le := proto.Clone(base.Proto).(*epb.VMLaunchEndorsement)
		switch r.Intn(3, "field") {
		case 0:
			le.SerializedUefiGolden, d.op = Corrupt(r, le.SerializedUefiGolden, "payload")
			d.op = "payload:" + d.op
		case 1:
			le.Signature, d.op = Corrupt(r, le.Signature, "sig")
			d.op = "signature:" + d.op
		default:
			g := proto.Clone(base.Golden).(*epb.VMGoldenMeasurement)
			g.Cert, d.op = Corrupt(r, g.Cert, "cert")
			d.op = "cert:" + d.op
			le.SerializedUefiGolden, _ = proto.Marshal(g)
		}
		d.bytes, _ = proto.Marshal(le)
	case 4: // swap the certificate, keep the signature
		g := proto.Clone(base.Golden).(*epb.VMGoldenMeasurement)
		other := f.Current().Cert
		d.op = "cert-swap:foreign"
		if len(a.OldCerts) > 0 && r.Bool("swap-old") {
			other = a.OldCerts[r.Intn(len(a.OldCerts), "old-cert")].Cert
			d.op = "cert-swap:old-key"
		}
		g.Cert = other.Raw
		payload, _ := proto.Marshal(g)
		d.bytes, _ = proto.Marshal(&epb.VMLaunchEndorsement{SerializedUefiGolden: payload, Signature: base.Proto.Signature})
	case 5: // attacker key with a forged certificate
		ak := AttackerKey(a, r.Intn(3, "attacker-key"))
		nb, na := base.Cert.NotBefore, base.Cert.NotAfter
		switch r.Intn(3, "forged-issuer") {
		case 0:
			d.bytes, d.op = Reassemble(base.Golden, ForgeCert(ak, nil, nil, nb, na, 77), ak, 0), "resign:self-signed-cert"
		case 1:
			d.bytes, d.op = Reassemble(base.Golden, ForgeCert(ak, f.Root, f.RootKey, nb, na, 78), ak, 0), "resign:cert-from-foreign-root"
		default:
			// names copied from the genuine root, key is the attacker's
			fake := ForgeCert(AttackerKey(a, 3), nil, nil, a.Root.NotBefore, a.Root.NotAfter, 1)
			d.bytes, d.op = Reassemble(base.Golden, ForgeCert(ak, fake, AttackerKey(a, 3), nb, na, 79), ak, 0), "resign:cert-from-lookalike-root"
		}
	case 6: // rotated-away key with its genuine certificate (an attacker who kept a destroyed key)
		if len(a.OldCerts) == 0 {
			d.bytes, d.op, d.genuine = base.Bytes, "genuine", true
			break
		}
		kc := a.OldCerts[r.Intn(len(a.OldCerts), "old-key")]
		d.bytes, d.op = Reassemble(base.Golden, kc.Cert, kc.Key, 0), "resign:rotated-away-key"
	case 7: // current key, other signature scheme
		s := 1 + r.Intn(4, "scheme")
		d.bytes, d.op = Reassemble(base.Golden, nil, cur.Key, s), fmt.Sprintf("resign:scheme-%d", s)
	case 8: // signature by another key than the certificate's
		d.bytes, d.op = Reassemble(base.Golden, nil, AttackerKey(a, 0), 0), "resign:wrong-key-genuine-cert"
	case 9: // a genuine endorsement of the foreign authority
		if len(f.Issued) > 0 {
			fi := f.Issued[r.Intn(len(f.Issued), "foreign-issued")]
			d.bytes, d.op, d.base = fi.Bytes, "foreign-genuine", fi
			break
		}
		d.bytes, d.op, d.genuine = base.Bytes, "genuine", true
	case 10: // payload edited (measurement changed), signature kept
		g := proto.Clone(base.Golden).(*epb.VMGoldenMeasurement)
		g.ClSpec++
		payload, _ := proto.Marshal(g)
		d.bytes, _ = proto.Marshal(&epb.VMLaunchEndorsement{SerializedUefiGolden: payload, Signature: base.Proto.Signature})
		d.op = "payload-edit-keep-signature"
	case 15:
		// a certificate the right root really issued, in date, for a key that is NOT RSA (the root
		// operator's tooling slipped, say); the signature field holds anything. Whatever error a
		// key-type mismatch raises, it is not an RSA-PSS/SHA-256 signature by a certified key.
		var pub any
		if r.Bool("nonrsa-ed25519") {
			p, _, _ := ed25519.GenerateKey(core.NewDetReader(5))
			pub = p
		} else {
			k, _ := ecdsa.GenerateKey(elliptic.P256(), core.NewDetReader(6))
			pub = &k.PublicKey
		}
		tpl := &x509.Certificate{SerialNumber: big.NewInt(92), Subject: pkix.Name{CommonName: "non-rsa-signer"}, NotBefore: base.Cert.NotBefore, NotAfter: base.Cert.NotAfter,
			KeyUsage: x509.KeyUsageDigitalSignature, SignatureAlgorithm: x509.SHA256WithRSAPSS, BasicConstraintsValid: true}
		der, err := x509.CreateCertificate(core.NewDetReader(7), tpl, a.Root, pub, a.RootKey)
		if err != nil {
			d.bytes, d.op, d.genuine = base.Bytes, "genuine", true
			break
		}
		g := proto.Clone(base.Golden).(*epb.VMGoldenMeasurement)
		g.Cert = der
		payload, _ := proto.Marshal(g)
		sig := [][]byte{nil, {}, bytes.Repeat([]byte{0x42}, 256), base.Proto.Signature}[r.Intn(4, "nonrsa-signature")]
		d.bytes, _ = proto.Marshal(&epb.VMLaunchEndorsement{SerializedUefiGolden: payload, Signature: sig})
		d.op = "resign:root-issued-non-rsa-key-cert+arbitrary-signature"
	case 17:
		// an outsider's self-signed certificate that carries a critical extension no verifier knows:
		// whatever a chain builder makes of that, it is not a chain to a trusted root
		ok := AttackerKey(a, 1)
		tpl := &x509.Certificate{SerialNumber: big.NewInt(93), Subject: pkix.Name{CommonName: "outsider"}, NotBefore: base.Cert.NotBefore, NotAfter: base.Cert.NotAfter,
			KeyUsage: x509.KeyUsageDigitalSignature, SignatureAlgorithm: x509.SHA256WithRSAPSS, BasicConstraintsValid: true,
			ExtraExtensions: []pkix.Extension{{Id: []int{1, 3, 6, 1, 4, 1, 99999, 1}, Critical: true, Value: []byte{5, 0}}}}
		if r.Bool("critical-extension-issued-by-root") {
			// ... or one the right root really issued, with the same unknown critical extension
			if der, err := x509.CreateCertificate(core.NewDetReader(8), tpl, a.Root, &ok.PublicKey, a.RootKey); err == nil {
				if c, err := x509.ParseCertificate(der); err == nil {
					d.bytes, d.op = Reassemble(base.Golden, c, ok, 0), "resign:root-issued-cert-with-unknown-critical-extension"
					break
				}
			}
		}
		der, err := x509.CreateCertificate(core.NewDetReader(9), tpl, tpl, &ok.PublicKey, ok)
		if err != nil {
			d.bytes, d.op, d.genuine = base.Bytes, "genuine", true
			break
		}
		c, _ := x509.ParseCertificate(der)
		d.bytes, d.op = Reassemble(base.Golden, c, ok, 0), "resign:self-signed-cert-with-unknown-critical-extension"
	case 16:
		// the forger runs a CA of its own and names it in the endorsement's ca_bundle next to the
		// genuine root (in either order, or alone): the bundle is the sender's say-so, only the
		// caller's roots anchor a chain
		ck, sk := AttackerKey(a, 1), AttackerKey(a, 2)
		forgerCA := OtherRoot(a.Root, ck)
		g := proto.Clone(base.Golden).(*epb.VMGoldenMeasurement)
		order := r.Intn(4, "forged-bundle-order")
		switch order {
		case 0:
			g.CaBundle = pemOf(a.Root, forgerCA)
		case 1:
			g.CaBundle = pemOf(forgerCA, a.Root)
		case 2:
			g.CaBundle = pemOf(forgerCA)
		default:
			g.CaBundle = pemOf(a.Root, IntermediateCA(forgerCA, ck, AttackerKey(a, 3)), forgerCA)
		}
		d.bytes, d.op = Reassemble(g, ForgeCert(sk, forgerCA, ck, base.Cert.NotBefore, base.Cert.NotAfter, 83), sk, 0), fmt.Sprintf("resign:forger-ca-named-in-bundle-%d", order)
	case 14:
		// the certificate field holds the genuine signer certificate FOLLOWED by a certificate of
		// the forger's own (any issuer), and the payload is signed by the forger's key: one
		// certificate is expected there, and it must be the one the signature is checked with
		ak := AttackerKey(a, r.Intn(3, "bundle-key"))
		extra := ForgeCert(ak, nil, nil, base.Cert.NotBefore, base.Cert.NotAfter, 81)
		g := proto.Clone(base.Golden).(*epb.VMGoldenMeasurement)
		g.Cert = append(append([]byte(nil), base.Cert.Raw...), extra.Raw...)
		payload, _ := proto.Marshal(g)
		d.bytes, _ = proto.Marshal(&epb.VMLaunchEndorsement{SerializedUefiGolden: payload, Signature: Sign(ak, payload, 0)})
		d.op = "resign:genuine-cert+forger-cert-bundle"
	case 13:
		// the genuine signature in another encoding of the same integer: zero bytes prepended (or a
		// leading zero byte dropped). RSA signatures have exactly the modulus' length; the bytes
		// carried are not a valid signature, whatever number they spell.
		le := proto.Clone(base.Proto).(*epb.VMLaunchEndorsement)
		if len(le.Signature) > 0 && le.Signature[0] == 0 && r.Bool("drop-leading-zero") {
			le.Signature, d.op = le.Signature[1:], "signature:leading-zero-dropped"
		} else {
			k := 1 + r.Intn(8, "zeros")
			le.Signature, d.op = append(make([]byte, k), le.Signature...), fmt.Sprintf("signature:%d-zero-bytes-prepended", k)
		}
		d.bytes, _ = proto.Marshal(le)
	case 12:
		// a certificate genuinely issued by the right root key, but with another signature
		// algorithm (legal X.509), certifying a key that signs the endorsement with the matching
		// non-PSS/SHA-256 scheme: chain and time are fine, the endorsement signature is not
		// RSA-PSS/SHA-256
		ak := AttackerKey(a, r.Intn(3, "alt-key"))
		alg, scheme := x509.SHA256WithRSA, 1
		if r.Bool("alt-alg-pss384") {
			alg, scheme = x509.SHA384WithRSAPSS, 2
		}
		c := ForgeCertAlg(ak, a.Root, a.RootKey, base.Cert.NotBefore, base.Cert.NotAfter, 80, alg)
		d.bytes, d.op = Reassemble(base.Golden, c, ak, scheme), fmt.Sprintf("resign:root-issued-cert-alg-%v", alg)
	default:
		d.bytes, d.op = Splice(r, base.Bytes, f.Current().Cert.Raw, "splice")
		d.op = "blob:" + d.op
	}
	d.bytes = r.Blob("delivery", func() []byte { return d.bytes })
	return d
}

func runC01(r *core.Run) {
	a := NewParty(r, "a", 0)
	f := NewParty(r, "f", 0)
	small := images.Small()
	pool := images.Pool()
	wantTDX := r.Chance(25, "tdx-world?")
	nIssue := 1 + r.Intn(3, "issue")
	for i := 0; i < nIssue; i++ {
		q := worldp.Req{Image: small[r.Intn(len(small), "image")], SNP: true}
		if wantTDX && i == 0 {
			q = worldp.Req{Image: pool[4], SNP: true, TDX: true, LaunchVmsas: 2}
		} else if r.Bool("one-count") {
			q.LaunchVmsas = []uint32{2, 4, 8}[r.Intn(3, "vmsas")]
		}
		a.Endorse(r, q)
		if i+1 < nIssue && r.Chance(60, "rotate-between?") {
			a.Rotate(r)
		}
	}
	if r.Chance(50, "rotate-after?") {
		a.Rotate(r)
	}
	f.Endorse(r, worldp.Req{Image: small[0], SNP: true, LaunchVmsas: 2})
	net := NewSimNet(r)

	// Prime the (long-lived) verifier process: every genuine endorsement is first verified under
	// the right root inside its window, so anything a verifier remembers between calls is in place
	// when the hostile deliveries arrive.
	for _, is := range a.Issued {
		t := is.Cert.NotBefore.Add(time.Hour)
		if err := verify.Endorsement(is.Bytes, &verify.Options{RootsOfTrust: Pool(a.Root), Now: t}); err == nil {
			r.Probe("primed")
		}
	}
	nVerify := 2 + r.Intn(5, "verifications")
	var samples []string
	for v := 0; v < nVerify; v++ {
		base := a.Issued[r.Intn(len(a.Issued), "base")]
		d := deliver(r, a, f, base)
		// roots
		rootKind := r.Intn(7, "roots")
		var rootList []*x509.Certificate
		switch rootKind {
		case 0, 1:
			rootList = []*x509.Certificate{a.Root}
		case 2:
			rootList = []*x509.Certificate{f.Root}
		case 3:
			rootList = []*x509.Certificate{a.Root, f.Root}
		case 4:
			rootList = []*x509.Certificate{} // empty pool
		case 5:
			rootList = nil // nil pool
		case 6:
			// a root with the genuine root's names and validity but another key
			rootList = []*x509.Certificate{LookalikeRoot(a.Root, AttackerKey(a, 4))}
		}
		var cpool *x509.CertPool
		if rootKind != 5 {
			cpool = Pool(rootList...)
		}
		// time, relative to the validity of the certificate the delivery carries (if readable)
		ref := refv.CheckBytes(d.bytes, nil, time.Time{})
		cert := d.base.Cert
		if ref.Cert != nil {
			cert = ref.Cert
		}
		var t time.Time
		timeClass := ""
		switch r.Intn(8, "time-class") {
		case 0, 1, 2:
			span := int(cert.NotAfter.Sub(cert.NotBefore) / time.Second)
			if span < 2 {
				span = 2
			}
			t, timeClass = cert.NotBefore.Add(time.Duration(1+r.Intn(span-1, "t-inside"))*time.Second), "inside"
		case 3:
			t, timeClass = cert.NotBefore, "not-before"
		case 4:
			t, timeClass = cert.NotAfter, "not-after"
		case 5:
			t, timeClass = cert.NotBefore.Add(-time.Second), "not-before-1s"
		case 6:
			t, timeClass = cert.NotAfter.Add(time.Second), "not-after+1s"
		default:
			skew := []time.Duration{-6 * 365 * 24 * time.Hour, -24 * time.Hour, time.Hour, 6 * 365 * 24 * time.Hour}[r.Intn(4, "skew")]
			t, timeClass = a.A.Now.Add(skew), "skewed-now"
		}
		// the same instant, told in another time zone: verification is about instants
		if r.Chance(25, "time-in-other-zone?") {
			off := []int{-11, -8, -3, 2, 5, 9, 13}[r.Intn(7, "zone")]
			t = t.In(time.FixedZone(fmt.Sprintf("UTC%+d", off), off*3600))
			timeClass += fmt.Sprintf("@UTC%+d", off)
		}
		entry := r.Intn(17, "entry")
		if entry >= 9 && entry <= 11 && !(wantTDX) { // TDX entries need a TDX world
			entry = r.Intn(9, "entry-snp")
		}
		var err error
		var name string
		var skipped bool
		func() {
			// a panic inside an entry point is C07's subject; for C01 it is "not accepted"
			defer func() {
				if p := recover(); p != nil {
					err, skipped = fmt.Errorf("panic: %v", p), false
					if name == "" {
						name = fmt.Sprintf("entry#%d", entry)
					}
					r.Probe("panic-in-entry-point")
				}
			}()
			err, name, skipped = callEntry(r, entry, d, cpool, rootList, t, net, a)
		}()
		if skipped {
			continue
		}
		verdict := refv.CheckBytes(d.bytes, rootList, t)
		outcome := "reject"
		if err == nil {
			outcome = "accept"
		}
		nontrivial := !d.genuine || rootKind >= 2 || timeClass != "inside"
		if rootKind == 6 {
			r.Probe("lookalike-root")
		}
		r.Eval(fmt.Sprintf("%s|%s|roots%d|%s|%s", name, opClass(d.op), rootKind, timeClass, outcome), nontrivial)
		r.Eventf("verify entry=%s op=%s roots=%d time=%s -> %s (reference ok=%v)", name, opClass(d.op), rootKind, timeClass, outcome, verdict.OK())
		if len(samples) < 4 {
			samples = append(samples, fmt.Sprintf("%s %s roots=%d t=%s -> %s", name, d.op, rootKind, timeClass, outcome))
		}
		if err == nil && !verdict.OK() {
			r.Fail("accept-"+verdict.FirstFailure(), name, "%s accepted a delivery (%s, roots kind %d, time %s=%v) that the reference verifier refuses: %s %s",
				name, d.op, rootKind, timeClass, t.UTC(), verdict.FirstFailure(), verdict.ParseDetail)
		}
		if d.genuine && rootKind <= 1 && timeClass == "inside" {
			if err == nil {
				r.Probe("genuine-accepted")
			} else {
				r.Probe("genuine-rejected:" + name)
				r.Eventf("note: genuine delivery rejected by %s: %v", name, core.Short(err.Error(), 160))
			}
		}
		if err == nil {
			r.Probe("accepted:" + name)
		}
	}
	r.Sample = map[string]any{"rotations": len(a.OldCerts), "issued": len(a.Issued), "verifications": samples}
}

func opClass(op string) string {
	for i := 0; i < len(op); i++ {
		if op[i] == '@' || op[i] == '+' {
			return op[:i]
		}
	}
	return op
}

// callEntry drives one entry point. It returns the entry point's error (nil = accepted).
func callEntry(r *core.Run, entry int, d delivery, cpool *x509.CertPool, rootList []*x509.Certificate, t time.Time, net *SimNet, a *Party) (err error, name string, skipped bool) {
	ctx := output.NewContext(context.Background(), &output.Options{Quiet: true})
	// the report's FAMILY_ID is the guest owner's to set (an ID block): zero on most machines, the
	// firmware family's on some, anything on others. It says nothing about who signed what.
	var famID []byte
	if r.Chance(25, "report-family-id?") {
		famID = bytes.Repeat([]byte{byte(1 + r.Intn(250, "family-id-byte"))}, 16)
	}
	snpAtt := func(meas, blob []byte) *spb.Attestation {
		at := SnpAttestation(meas, blob)
		if famID != nil {
			at.Report.FamilyId = famID
		}
		return at
	}
	le := &epb.VMLaunchEndorsement{}
	parsed := proto.Unmarshal(d.bytes, le) == nil
	// the measurement the attestation carries: one the delivered document lists, when it can be read
	meas := bytes.Repeat([]byte{0x5a}, 48)
	var mrtd []byte
	g := &epb.VMGoldenMeasurement{}
	if parsed && proto.Unmarshal(le.GetSerializedUefiGolden(), g) == nil {
		for _, c := range []uint32{2, 4, 8, 16, 1} {
			if m := g.GetSevSnp().GetMeasurements()[c]; len(m) == 48 {
				meas = m
				break
			}
		}
		if ms := g.GetTdx().GetMeasurements(); len(ms) > 0 {
			mrtd = ms[0].GetMrtd()
		}
	} else if ms := d.base.Golden.GetSevSnp().GetMeasurements(); len(ms) > 0 {
		for _, c := range []uint32{2, 4, 8, 16, 1} {
			if m := ms[c]; len(m) == 48 {
				meas = m
				break
			}
		}
	}
	if mrtd == nil {
		if ms := d.base.Golden.GetTdx().GetMeasurements(); len(ms) > 0 {
			mrtd = ms[0].GetMrtd()
		}
	}
	// the network also serves what a deployment's would: the well-known default root location
	// (here: the genuine authority's root). Only a caller that names no root file asks for it.
	net.Objects = map[string][]byte{SnpURL(meas): d.bytes, gcetcbendorsement.DefaultRootURL: pemOf(a.Root)}
	switch entry {
	case 0:
		o := &verify.Options{RootsOfTrust: cpool, Now: t}
		name := "verify.Endorsement"
		if r.Chance(30, "options-carry-genuine-endorsement") {
			// an options value built for the SEV-SNP flow and reused: its Endorsement field holds the
			// genuine endorsement, while the bytes handed to the function are the delivery. What is
			// accepted is the bytes.
			gen := &epb.VMLaunchEndorsement{}
			if proto.Unmarshal(d.base.Bytes, gen) == nil {
				o.Endorsement, name = gen, "verify.Endorsement/options-hold-genuine"
			}
		}
		return verify.Endorsement(d.bytes, o), name, false
	case 1:
		if !parsed {
			return nil, "", true
		}
		return verify.EndorsementProto(le, &verify.Options{RootsOfTrust: cpool, Now: t}), "verify.EndorsementProto", false
	case 2:
		f := verify.SNPValidateFunc(&verify.Options{RootsOfTrust: cpool, Now: t})
		return f(snpAtt(meas, nil), d.bytes), "closure/cert-table", false
	case 3:
		f := verify.SNPValidateFunc(&verify.Options{RootsOfTrust: cpool, Now: t, Getter: net})
		return f(snpAtt(meas, nil), nil), "closure/getter", false
	case 4:
		if !parsed {
			return nil, "", true
		}
		f := verify.SNPValidateFunc(&verify.Options{RootsOfTrust: cpool, Now: t, Endorsement: le})
		return f(snpAtt(meas, nil), nil), "closure/options", false
	case 5:
		if !parsed {
			return nil, "", true
		}
		return gcetcbendorsement.SevValidate(ctx, snpAtt(meas, nil), &gcetcbendorsement.SevValidateOptions{Endorsement: le, RootsOfTrust: cpool, Now: t}), "SevValidate/given", false
	case 6:
		return gcetcbendorsement.SevValidate(ctx, snpAtt(meas, d.bytes), &gcetcbendorsement.SevValidateOptions{RootsOfTrust: cpool, Now: t}), "SevValidate/extras", false
	case 7:
		return gcetcbendorsement.SevValidate(ctx, snpAtt(meas, nil), &gcetcbendorsement.SevValidateOptions{RootsOfTrust: cpool, Now: t, Getter: net}), "SevValidate/bucket", false
	case 8, 11:
		// cobra commands
		io := newMemIO()
		io.Files["e.binarypb"] = d.bytes
		io.Files["roots.pem"] = pemOf(rootList...)
		b := &gcmd.Backend{Getter: net, Now: t, IO: io}
		if cpool == nil {
			// "no roots": the CLI always needs a root file; an empty file is the closest it can get
			io.Files["roots.pem"] = nil
		} else if len(rootList) == 1 && r.Chance(25, "root-file-der") {
			// the root file may also hold a single DER certificate
			io.Files["roots.pem"] = rootList[0].Raw
		}
		// the root comes from the named file or, when the caller names none, from the well-known
		// default location, which in that case serves the drawn root set
		rootArgs, via := []string{"--root_cert", "roots.pem"}, ""
		if r.Chance(25, "cli-default-root") {
			rootArgs, via = nil, "+default-root"
			net.Objects[gcetcbendorsement.DefaultRootURL] = pemOf(rootList...)
		}
		cli := func(args ...string) error {
			full := append([]string{args[0]}, args[1:]...)
			// insert the root arguments right after the (sub)command words
			n := 1
			if args[0] == "sev" || args[0] == "tdx" {
				n = 2
			}
			full = append(append(append([]string(nil), args[:n]...), rootArgs...), args[n:]...)
			return runCLI(b, full...)
		}
		switch r.Intn(3, "cli-cmd") {
		case 0:
			if r.Chance(20, "verify-two-files?") {
				// the delivery first, a genuine endorsement after it: the command takes one file
				io.Files["genuine.binarypb"] = d.base.Bytes
				return cli("verify", "e.binarypb", "genuine.binarypb"), "cli/verify+second-file" + via, false
			}
			return cli("verify", "e.binarypb"), "cli/verify" + via, false
		case 1:
			// (a bare sevsnp.Attestation serialization is sniffed as a TEE-less go-tpm-tools
			// Attestation by extract.Attestation, so the documented wrapper format is used)
			at, _ := proto.Marshal(&tpmpb.Attestation{TeeAttestation: &tpmpb.Attestation_SevSnpAttestation{SevSnpAttestation: snpAtt(meas, nil)}})
			io.Files["att.bin"] = at
			return cli("sev", "validate", "--endorsement", "e.binarypb", "att.bin"), "cli/sev-validate" + via, false
		default:
			if len(mrtd) != 48 {
				return nil, "", true
			}
			io.Files["quote.bin"] = TdxQuoteRaw(TdxQuote(mrtd))
			return cli("tdx", "validate", "--endorsement", "e.binarypb", "quote.bin"), "cli/tdx-validate" + via, false
		}
	case 12:
		// the caller's endorsement is the delivery, while the attestation's certificate table
		// carries the genuine one: the caller's must be the one authenticated
		if !parsed {
			return nil, "", true
		}
		return gcetcbendorsement.SevValidate(ctx, snpAtt(meas, d.base.Bytes), &gcetcbendorsement.SevValidateOptions{Endorsement: le, RootsOfTrust: cpool, Now: t}), "SevValidate/given+table", false
	case 13:
		if !parsed {
			return nil, "", true
		}
		f := verify.SNPValidateFunc(&verify.Options{RootsOfTrust: cpool, Now: t, Endorsement: le})
		return f(snpAtt(meas, nil), d.base.Bytes), "closure/options+table", false
	case 15:
		// a long-lived validator: built while the relying party trusted the genuine root and the
		// certificate was valid, used after the party changed its options value (its roots, its
		// clock). The options the caller configured at the time of the call decide.
		o := &verify.Options{RootsOfTrust: Pool(a.Root), Now: a.A.Now.Add(time.Hour)}
		f := verify.SNPValidateFunc(o)
		if perr := f(snpAtt(meas, nil), d.base.Bytes); perr == nil {
			r.Probe("late-options-validator-primed")
		}
		o.RootsOfTrust, o.Now = cpool, t
		return f(snpAtt(meas, nil), d.bytes), "closure/late-options", false
	case 16:
		// a long-lived validator that first downloaded the genuine endorsement for this very
		// measurement (a guest without a certificate-table entry), and is now handed a guest whose
		// table carries the delivery: what is accepted is what this guest carries
		net.Objects[SnpURL(meas)] = d.base.Bytes
		o := &verify.Options{RootsOfTrust: Pool(a.Root), Now: a.A.Now.Add(time.Hour), Getter: net}
		f := verify.SNPValidateFunc(o)
		if perr := f(snpAtt(meas, nil), nil); perr == nil {
			r.Probe("validator-primed-by-download")
		}
		o.RootsOfTrust, o.Now = cpool, t
		return f(snpAtt(meas, nil), d.bytes), "closure/after-its-own-download", false
	case 14:
		// sign/ops: verify a message signature "from the CA": the CA double serves the delivered
		// certificate for the key and the caller's roots as its bundle
		if !parsed || len(rootList) == 0 {
			return nil, "", true
		}
		ca := &servingCA{cert: g.GetCert(), bundle: pemOf(rootList...)}
		return sops.VerifySignatureFromCA(ctx, ca, "k", t, le.GetSerializedUefiGolden(), le.GetSignature()), "sops.VerifySignatureFromCA", false
	default: // 9, 10: TdxValidate with the endorsement supplied
		if !parsed || len(mrtd) != 48 {
			return nil, "", true
		}
		return gcetcbendorsement.TdxValidate(ctx, TdxQuoteRaw(TdxQuote(mrtd)), &gcetcbendorsement.TdxValidateOptions{Endorsement: le, RootsOfTrust: cpool, Now: t}), "TdxValidate/given", false
	}
}

// servingCA is a read-only CertificateAuthority double for sops.VerifySignatureFromCA.
type servingCA struct {
	styp.CertificateAuthority
	cert   []byte
	bundle []byte
}

func (c *servingCA) Certificate(context.Context, string) ([]byte, error) { return c.cert, nil }
func (c *servingCA) CABundle(context.Context, string) ([]byte, error)    { return c.bundle, nil }
