package worldr

import (
	"bytes"
	"context"
	"encoding/base64"
	"encoding/hex"
	"fmt"
	"github.com/google/gce-tcb-verifier/cmd/output"
	"github.com/google/gce-tcb-verifier/gcetcbendorsement"
	"os"
	"path/filepath"
	"strings"
	"time"
	"unicode/utf16"

	"github.com/google/gce-tcb-verifier/eventlog"
	"github.com/google/gce-tcb-verifier/extract"
	exel "github.com/google/gce-tcb-verifier/extract/eventlog"
	"github.com/google/gce-tcb-verifier/extract/extractsev"
	"github.com/google/gce-tcb-verifier/extract/extracttdx"
	gcmd "github.com/google/gce-tcb-verifier/gcetcbendorsement/cmd"
	oabi "github.com/google/gce-tcb-verifier/ovmf/abi"
	evpb "github.com/google/gce-tcb-verifier/proto/events"
	"github.com/google/gce-tcb-verifier/sev"
	"github.com/google/gce-tcb-verifier/verify"
	"github.com/google/go-sev-guest/abi"
	spb "github.com/google/go-sev-guest/proto/sevsnp"
	tpmpb "github.com/google/go-tpm-tools/proto/attest"
	"github.com/google/uuid"
	"google.golang.org/protobuf/proto"

	"verifsim/core"
	"verifsim/images"
	"verifsim/worldp"
)

const googleGUID = "a2858e46-a37f-456a-8c79-0c1fe48b65ff"

func init() {
	core.Register(&core.Check{
		ID: "C16", World: "R (relying party)", Level: "fault_enumeration",
		Rule: "one evaluation = one extraction (extract.Endorsement or the extract cobra command) for a VM of the fleet under one combination of evidence sources: event log {absent, unreadable, foreign manufacturer only, raw / variable / local / URI locators and mixes}, efivarfs {variable present, absent, short, path-metacharacter names, symlink out of the root}, supplied quote {none, each container format with and without the certificate-table entry, TDX, garbage}, quote provider {nil, ok, failing, no certificate table}, getter {nil, ok, failing}, forced fetch on/off, manufacturer filter set/empty; " +
			"planned runs sweep the cross product of the source states (one representative per state), random runs add names/containers/contents; also: the SP800-155 events the signer emits for a pool image are parsed back; " +
			"non-trivial = at least one evidence source is absent, failing or hostile; distinct by event fingerprint",
		Exhaustive: "cross product of the representative states of (event log, efivar, quote, provider, getter, force-fetch) = every planned run",
		Assumptions: []string{
			"a fetch of a URL that is itself a manufacturer-matching URI locator of the supplied event log is the log being followed (documented raw > variable > local > URI order), not 'network although local evidence was available'",
			"reads outside the efivarfs root are observed through canary files placed at every path the hostile names and symlinks aim at: an escape shows as canary bytes in the result",
			"bucket URLs are recomputed by the oracle from the measurement (family prefix / technology / hex) independently of the repository's naming helpers",
		},
		Components: []core.Component{
			{Name: "extract.Endorsement/Attestation, extractsev, extracttdx, extract/eventlog (Locate, EfiVarFSReader), eventlog decoder, cmd extract", Kind: "real"},
			{Name: "endorse snapshot mode (makeEvents)", Kind: "real"},
			{Name: "efivarfs, event-log file", Kind: "real", Note: "real files in a per-run scratch directory written by the simulator"},
			{Name: "network, quote provider, file IO of the CLI", Kind: "stub"},
		},
		Plans:  c16Plans,
		Budget: core.StdBudget(1500, 100*time.Second, 200000, 9*time.Minute),
		Body:   runC16,
	})
}

// evidence-source states
var (
	c16Logs      = []string{"absent", "unreadable", "foreign-only", "raw", "variable", "uri", "local", "variable+uri", "raw+variable+uri", "foreign-raw+variable", "foreign-raw+raw+uri", "foreign-variable+variable+uri"}
	c16Vars      = []string{"present", "absent", "short", "dotdot-name", "absolute-name", "symlink-out", "nul-name", "surrogate-name", "lookalike-symlink", "bom-name"}
	c16Quotes    = []string{"none", "tpm+entry", "tpm", "report-proto", "raw+certs+entry", "raw+certs", "raw", "certs-only+entry", "hex(raw+certs+entry)", "base64(raw+certs+entry)", "tdx-raw", "tdx-tpm", "garbage", "empty-measurement", "tdx-tpm-long-mrtd", "tdx-tpm-short-mrtd"}
	c16Providers = []string{"nil", "ok+entry", "ok", "failing", "tdx"}
	c16Getters   = []string{"ok", "nil", "failing"}
)

type c16Head struct{ log, vr, quote, prov, get, force, filter, cli int }

func c16Prefix(h c16Head) core.Trace {
	return core.Trace{{L: "log", N: len(c16Logs), V: h.log}, {L: "var", N: len(c16Vars), V: h.vr}, {L: "quote", N: len(c16Quotes), V: h.quote},
		{L: "provider", N: len(c16Providers), V: h.prov}, {L: "getter", N: len(c16Getters), V: h.get}, {L: "force", N: 2, V: h.force},
		{L: "filter", N: 2, V: h.filter}, {L: "cli", N: 2, V: h.cli}}
}

func c16Plans(tier string) []core.Trace {
	var out []core.Trace
	vars := []int{0, 1}
	if tier == "thorough" {
		vars = []int{0, 1, 2, 3, 4, 5, 6, 7, 8, 9}
	}
	for l := range c16Logs {
		for _, v := range vars {
			for q := range c16Quotes {
				for p := range c16Providers {
					if tier != "thorough" && p >= 3 && q != 0 {
						continue // failing / tdx providers only matter when no quote is supplied
					}
					for g := range c16Getters {
						for f := 0; f < 2; f++ {
							out = append(out, c16Prefix(c16Head{log: l, vr: v, quote: q, prov: p, get: g, force: f, filter: 1}))
						}
					}
				}
			}
		}
	}
	return out
}

type simProvider struct {
	r    *core.Run
	raw  []byte
	fail bool
	n    int
}

func (p *simProvider) IsSupported() bool { return true }
func (p *simProvider) GetRawQuote([64]byte) ([]uint8, error) {
	p.n++
	p.r.Eventf("provider GetRawQuote")
	if p.fail {
		return nil, fmt.Errorf("simprovider: device busy")
	}
	return append([]byte(nil), p.raw...), nil
}
func (p *simProvider) GetRawQuoteAtLevel(d [64]byte, _ uint) ([]uint8, error) {
	return p.GetRawQuote(d)
}

func ucs2(s string) []byte {
	var b []byte
	for _, u := range utf16.Encode([]rune(s)) {
		b = append(b, byte(u), byte(u>>8))
	}
	return append(b, 0, 0)
}

func varLocator(guid uuid.UUID, name []byte) []byte {
	g := make([]byte, 16)
	oabi.PutUUID(g, guid)
	return append(g, name...)
}

func sp155(manufacturer string, locType uint32, loc []byte, rim uuid.UUID) *eventlog.SP800155Event3 {
	return &eventlog.SP800155Event3{PlatformManufacturerID: 11129, ReferenceManifestGUID: eventlog.EfiGUID{UUID: rim},
		PlatformManufacturerStr: eventlog.ByteSizedCStr{Data: manufacturer}, PlatformModel: eventlog.ByteSizedCStr{Data: "Google Compute Engine"},
		PlatformVersion: eventlog.ByteSizedCStr{Data: ""}, FirmwareManufacturerStr: eventlog.ByteSizedCStr{Data: manufacturer}, FirmwareManufacturerID: 11129,
		FirmwareVersion: eventlog.ByteSizedCStr{Data: "2.7"}, RIMLocatorType: locType, RIMLocator: eventlog.Uint32SizedArray{Data: loc}}
}

func buildLog(events []*eventlog.SP800155Event3) []byte { return buildLogSized(events, 0) }

// buildLogSized is buildLog with one more measured event of the given size (0: none) ahead of the
// SP800-155 events: firmware measures large blobs too.
func buildLogSized(events []*eventlog.SP800155Event3, large int) []byte {
	cel := &eventlog.CryptoAgileLog{Header: eventlog.TCGPCClientPCREvent{EventType: eventlog.EvNoAction,
		EventData: eventlog.TCGEventData{Event: &eventlog.UnknownEvent{Data: []byte("Spec ID Event03\x00 simulated header")}}}}
	mk := func(e eventlog.SerializableFromBytes, typ uint32) *eventlog.TCGPCREvent2 {
		return &eventlog.TCGPCREvent2{EventType: typ, Digests: eventlog.Uint32SizedArrayT[*eventlog.TaggedDigest]{Array: []*eventlog.TaggedDigest{{AlgID: 0xB, Digest: make([]byte, 32)}}},
			EventData: eventlog.TCGEventData{Event: e}}
	}
	cel.Events = append(cel.Events, mk(&eventlog.UnknownEvent{Data: []byte("an unrelated measured event.....")}, 0x80000001))
	if large > 0 {
		big := make([]byte, large)
		for i := range big {
			big[i] = byte(i*29 + i>>9)
		}
		cel.Events = append(cel.Events, mk(&eventlog.UnknownEvent{Data: big}, 0x80000008))
	}
	for _, e := range events {
		cel.Events = append(cel.Events, mk(e, eventlog.EvNoAction))
	}
	cel.Events = append(cel.Events, mk(&eventlog.UnknownEvent{Data: []byte("short")}, 4))
	var buf bytes.Buffer
	if err := cel.Marshal(&buf); err != nil {
		panic(err)
	}
	return buf.Bytes()
}

func runC16(r *core.Run) {
	h := c16Head{log: r.Intn(len(c16Logs), "log"), vr: r.Intn(len(c16Vars), "var"), quote: r.Intn(len(c16Quotes), "quote"),
		prov: r.Intn(len(c16Providers), "provider"), get: r.Intn(len(c16Getters), "getter"), force: r.Intn(2, "force"),
		filter: r.Intn(2, "filter"), cli: r.Intn(2, "cli")}
	logS, varS, quoteS, provS, getS := c16Logs[h.log], c16Vars[h.vr], c16Quotes[h.quote], c16Providers[h.prov], c16Getters[h.get]
	force := h.force == 1

	// ---- the VM: an authority, a genuine endorsement for its firmware, its measurement ----
	a := NewParty(r, "a", 0)
	img := images.Small()[r.Intn(2, "image")]
	vmsas := uint32(2)
	is := a.Endorse(r, worldp.Req{Image: img, SNP: true, LaunchVmsas: vmsas, SnapshotDir: ""})
	meas := is.Golden.SevSnp.Measurements[vmsas]
	genuine := is.Bytes
	mrtd := bytes.Repeat([]byte{0x3c}, 48)

	scratch := worldp.Scratch(r)
	efiRoot := filepath.Join(scratch, "efivars")
	outside := filepath.Join(scratch, "outside")
	os.MkdirAll(efiRoot, 0o755)
	os.MkdirAll(outside, 0o755)
	canary := []byte("CANARY-outside-the-efivarfs-root")
	guid := uuid.MustParse(googleGUID)

	// ---- efivarfs ----
	varName := "FirmwareRIM"
	varData := append([]byte("RIM-from-variable:"), genuine...)
	nameBytes := ucs2(varName)
	switch varS {
	case "present":
		os.WriteFile(filepath.Join(efiRoot, varName+"-"+googleGUID), append([]byte{7, 0, 0, 0}, varData...), 0o644)
	case "absent":
	case "short":
		os.WriteFile(filepath.Join(efiRoot, varName+"-"+googleGUID), []byte{7, 0, 0}, 0o644)
	case "dotdot-name":
		varName = "../outside/Escape"
		nameBytes = ucs2(varName)
		os.WriteFile(filepath.Join(outside, "Escape-"+googleGUID), append([]byte{7, 0, 0, 0}, canary...), 0o644)
	case "absolute-name":
		varName = filepath.Join(outside, "Abs")
		nameBytes = ucs2(varName)
		os.WriteFile(filepath.Join(outside, "Abs-"+googleGUID), append([]byte{7, 0, 0, 0}, canary...), 0o644)
	case "symlink-out":
		os.Symlink(outside, filepath.Join(efiRoot, "link"))
		os.Symlink(filepath.Join(outside, "Target-"+googleGUID), filepath.Join(efiRoot, "Direct-"+googleGUID))
		os.WriteFile(filepath.Join(outside, "Target-"+googleGUID), append([]byte{7, 0, 0, 0}, canary...), 0o644)
		os.WriteFile(filepath.Join(outside, "Via-"+googleGUID), append([]byte{7, 0, 0, 0}, canary...), 0o644)
		varName = []string{"link/Via", "Direct"}[r.Intn(2, "symlink-kind")]
		nameBytes = ucs2(varName)
	case "bom-name":
		// CHAR16 names know no byte-order mark: U+FEFF at the start is a character of the name like
		// any other. The named variable exists; so does a different one whose name is the rest.
		varName = "\ufeffFirmwareRIM"
		nameBytes = ucs2(varName)
		os.WriteFile(filepath.Join(efiRoot, varName+"-"+googleGUID), append([]byte{7, 0, 0, 0}, varData...), 0o644)
		os.WriteFile(filepath.Join(efiRoot, "FirmwareRIM-"+googleGUID), append([]byte{7, 0, 0, 0}, []byte("another variable's contents")...), 0o644)
	case "lookalike-symlink":
		// the named entry does not exist; entries whose names differ from it only in letter case,
		// surrounding blanks or a normalised spelling are links that leave the root
		os.WriteFile(filepath.Join(outside, "Target-"+googleGUID), append([]byte{7, 0, 0, 0}, canary...), 0o644)
		for _, n := range []string{varName + "-" + strings.ToUpper(googleGUID), strings.ToLower(varName) + "-" + googleGUID, strings.ToUpper(varName) + "-" + strings.ToUpper(googleGUID),
			varName + "-" + googleGUID + " ", " " + varName + "-" + googleGUID, varName + "-{" + googleGUID + "}", varName + "-" + strings.ReplaceAll(googleGUID, "-", "")} {
			os.Symlink(filepath.Join(outside, "Target-"+googleGUID), filepath.Join(efiRoot, n))
		}
	case "nul-name":
		nameBytes = append(ucs2("Firm")[:8], append([]byte{0, 0}, ucs2("RIM")...)...)
	case "surrogate-name":
		nameBytes = []byte{0x3d, 0xd8, 0x00, 0xde, 'R', 0, 0, 0} // a surrogate pair: not representable in UCS-2
		if r.Bool("lone-surrogate") {
			nameBytes = []byte{0x3d, 0xd8, 'R', 0, 0, 0}
		}
	}

	// ---- event log ----
	rim := uuid.MustParse("11111111-2222-3333-4444-555555555555")
	rawData := []byte("RIM-raw-locator-data:" + img.Name)
	uri := "https://storage.googleapis.com/gce_tcb_integrity/ovmf_x64_csm/" + hex.EncodeToString(img.Digest[:]) + ".fd.signed"
	const gce, foreign = "Google, Inc.", "Someone Else Ltd."
	var evts []*eventlog.SP800155Event3
	hasRaw, hasVar, hasURI := false, false, false
	switch logS {
	case "foreign-only":
		evts = append(evts, sp155(foreign, eventlog.RIMLocationRaw, []byte("foreign raw"), rim))
	case "raw":
		evts, hasRaw = append(evts, sp155(gce, eventlog.RIMLocationRaw, rawData, rim)), true
	case "variable":
		evts, hasVar = append(evts, sp155(gce, eventlog.RIMLocationVariable, varLocator(guid, nameBytes), rim)), true
	case "uri":
		evts, hasURI = append(evts, sp155(gce, eventlog.RIMLocationURI, []byte(uri), rim)), true
	case "local":
		evts = append(evts, sp155(gce, eventlog.RIMLocationLocal, []byte("PciRoot(0x0)/Pci(0x1,0x0)"), rim))
	case "variable+uri":
		evts = append(evts, sp155(gce, eventlog.RIMLocationURI, []byte(uri), rim), sp155(gce, eventlog.RIMLocationVariable, varLocator(guid, nameBytes), rim))
		hasVar, hasURI = true, true
	case "raw+variable+uri":
		evts = append(evts, sp155(gce, eventlog.RIMLocationURI, []byte(uri), rim), sp155(gce, eventlog.RIMLocationVariable, varLocator(guid, nameBytes), rim), sp155(gce, eventlog.RIMLocationRaw, rawData, rim))
		hasRaw, hasVar, hasURI = true, true, true
	case "foreign-raw+variable":
		evts = append(evts, sp155(foreign, eventlog.RIMLocationRaw, []byte("foreign raw"), rim), sp155(gce, eventlog.RIMLocationVariable, varLocator(guid, nameBytes), rim))
		hasVar = true
	case "foreign-raw+raw+uri":
		// two events of ONE locator type: another vendor's comes first, the firmware's own second
		evts = append(evts, sp155(gce, eventlog.RIMLocationURI, []byte(uri), rim), sp155(foreign, eventlog.RIMLocationRaw, []byte("foreign raw"), rim), sp155(gce, eventlog.RIMLocationRaw, rawData, rim))
		hasRaw, hasURI = true, true
	case "foreign-variable+variable+uri":
		// (both name the same variable, so an unfiltered reader gets the same bytes)
		evts = append(evts, sp155(gce, eventlog.RIMLocationURI, []byte(uri), rim), sp155(foreign, eventlog.RIMLocationVariable, varLocator(guid, nameBytes), rim), sp155(gce, eventlog.RIMLocationVariable, varLocator(guid, nameBytes), rim))
		hasVar, hasURI = true, true
	}
	logPath := filepath.Join(scratch, "binary_bios_measurements")
	switch logS {
	case "absent":
	case "unreadable":
		os.WriteFile(logPath, []byte{1, 2, 3, 4, 5, 6, 7}, 0o644)
	default:
		large := 0
		if r.Chance(4, "large-log?") {
			large = 3 << 19 // 1.5 MiB: a log is as long as what the firmware measured
			r.Probe("large-event-log")
		}
		os.WriteFile(logPath, buildLogSized(evts, large), 0o644)
	}
	filter := gce
	if h.filter == 0 {
		filter = ""
		// without a filter the foreign events match too
		if logS == "foreign-only" || logS == "foreign-raw+variable" || logS == "foreign-raw+raw+uri" {
			hasRaw = true
			rawData = []byte("foreign raw")
		}
	}

	// ---- quote ----
	chain := func(entry bool) *spb.CertificateChain {
		c := &spb.CertificateChain{VcekCert: vcek()}
		if entry {
			c.Extras = map[string][]byte{"9f4116cd-c503-4f5a-8f6f-fb68882f4ce2": genuine}
		}
		return c
	}
	// the report's FAMILY_ID is the guest owner's to set (ID block); the object name is a function of
	// the measurement alone
	famID := make([]byte, 16)
	if r.Chance(25, "report-family-id?") {
		famID = bytes.Repeat([]byte{byte(1 + r.Intn(200, "family-byte"))}, 16)
	}
	rawReport := func(m []byte) []byte {
		rp := SnpReport(m)
		rp.FamilyId = append([]byte(nil), famID...)
		b, err := abi.ReportToAbiBytes(rp)
		if err != nil {
			panic(err)
		}
		return b
	}
	rawWithCerts := func(entry bool) []byte {
		return append(rawReport(meas), abi.CertsFromProto(chain(entry)).Marshal()...)
	}
	snpReport := func(m []byte) *spb.Report {
		rp := SnpReport(m)
		rp.FamilyId = append([]byte(nil), famID...)
		return rp
	}
	mkQuote := func(kind string) (q []byte, hasEntry bool, measOK bool, tdx bool) {
		switch kind {
		case "tpm+entry":
			q, _ = proto.Marshal(&tpmpb.Attestation{TeeAttestation: &tpmpb.Attestation_SevSnpAttestation{SevSnpAttestation: &spb.Attestation{Report: snpReport(meas), CertificateChain: chain(true)}}})
			return q, true, true, false
		case "tpm":
			q, _ = proto.Marshal(&tpmpb.Attestation{TeeAttestation: &tpmpb.Attestation_SevSnpAttestation{SevSnpAttestation: &spb.Attestation{Report: snpReport(meas), CertificateChain: chain(false)}}})
			return q, false, true, false
		case "report-proto":
			// (a bare Report proto is told from the other formats by sniffing; with a non-zero
			// FAMILY_ID its bytes are taken for another format — a sniffing oddity no listed property
			// covers — so this container keeps the zero id)
			q, _ = proto.Marshal(SnpReport(meas))
			return q, false, true, false
		case "raw+certs+entry":
			return rawWithCerts(true), true, true, false
		case "raw+certs":
			return rawWithCerts(false), false, true, false
		case "raw":
			return rawReport(meas), false, true, false
		case "certs-only+entry":
			return abi.CertsFromProto(chain(true)).Marshal(), true, false, false
		case "hex(raw+certs+entry)":
			return []byte(hex.EncodeToString(rawWithCerts(true))), true, true, false
		case "base64(raw+certs+entry)":
			return []byte(base64.StdEncoding.EncodeToString(rawWithCerts(true))), true, true, false
		case "tdx-raw":
			return TdxQuoteRaw(TdxQuote(mrtd)), false, true, true
		case "tdx-tpm":
			q, _ = proto.Marshal(&tpmpb.Attestation{TeeAttestation: &tpmpb.Attestation_TdxAttestation{TdxAttestation: TdxQuote(mrtd)}})
			return q, false, true, true
		case "tdx-tpm-long-mrtd", "tdx-tpm-short-mrtd":
			// a proto-form TDX quote whose mr_td is not 48 bytes long (the raw form cannot say that)
			tq := TdxQuote(mrtd)
			bad := append(append([]byte(nil), mrtd...), bytes.Repeat([]byte{0x77}, []int{1, 16, 48}[r.Intn(3, "mrtd-extra")])...)
			if kind == "tdx-tpm-short-mrtd" {
				bad = mrtd[:[]int{0, 1, 47}[r.Intn(3, "mrtd-short")]]
			}
			tq.GetTdQuoteBody().MrTd = bad
			q, _ = proto.Marshal(&tpmpb.Attestation{TeeAttestation: &tpmpb.Attestation_TdxAttestation{TdxAttestation: tq}})
			return q, false, false, true
		case "garbage":
			return []byte("this is not an attestation in any supported format \xff\xfe"), false, false, false
		case "empty-measurement":
			rp := snpReport(meas)
			rp.Measurement = nil
			q, _ = proto.Marshal(&tpmpb.Attestation{TeeAttestation: &tpmpb.Attestation_SevSnpAttestation{SevSnpAttestation: &spb.Attestation{Report: rp, CertificateChain: chain(false)}}})
			return q, false, false, false
		}
		return nil, false, false, false
	}
	quote, qEntry, qMeasOK, qTDX := mkQuote(quoteS)
	// ---- network ----
	net := NewSimNet(r)
	bucketBody := append([]byte("FROM-BUCKET:"), genuine...)
	net.Objects[SnpURL(meas)] = bucketBody
	net.Objects[TdxURL(mrtd)] = append([]byte("FROM-BUCKET-TDX:"), genuine...)
	net.Objects[uri] = append([]byte("FROM-URI-LOCATOR:"), genuine...)
	// what an empty object name would fetch: the bucket listing
	net.Objects["https://storage.googleapis.com/gce_tcb_integrity/"] = []byte("<ListBucketResult>...</ListBucketResult>")
	net.FailAll = getS == "failing"

	var prov *simProvider
	pEntry, pMeasOK, pTDX := false, false, false
	// the local quote provider may belong to ANOTHER VM than the supplied quote (a verifier host
	// examining someone else's attestation): its certificate-table entry is then another endorsement
	otherVM := quote != nil && r.Chance(40, "provider-is-other-vm?")
	otherBlob := append([]byte("ENDORSEMENT-OF-THE-LOCAL-VM:"), genuine...)
	provMeas := meas
	switch provS {
	case "ok+entry":
		raw, e, m, t := mkQuote("raw+certs+entry")
		if otherVM {
			otherMeas := bytes.Repeat([]byte{0x77}, 48)
			provMeas = otherMeas
			raw = append(rawReport(otherMeas), abi.CertsFromProto(&spb.CertificateChain{VcekCert: vcek(), Extras: map[string][]byte{"9f4116cd-c503-4f5a-8f6f-fb68882f4ce2": otherBlob}}).Marshal()...)
			net.Objects[SnpURL(otherMeas)] = append([]byte("FROM-BUCKET-OTHER-VM:"), genuine...)
		}
		prov, pEntry, pMeasOK, pTDX = &simProvider{r: r, raw: raw}, e, m, t
	case "ok":
		raw, e, m, t := mkQuote("raw+certs")
		prov, pEntry, pMeasOK, pTDX = &simProvider{r: r, raw: raw}, e, m, t
	case "failing":
		prov = &simProvider{r: r, fail: true}
	case "tdx":
		raw, e, m, t := mkQuote("tdx-raw")
		prov, pEntry, pMeasOK, pTDX = &simProvider{r: r, raw: raw}, e, m, t
	}

	// ---- the extraction ----
	opts := &extract.Options{FirmwareManufacturer: filter, EventLogLocation: logPath, UEFIVariableReader: exel.MakeEfiVarFSReader(efiRoot), Quote: quote, ForceFetch: force}
	if logS == "absent" && r.Bool("empty-log-path") {
		opts.EventLogLocation = ""
	}
	if prov != nil {
		opts.Provider = prov
	}
	if getS != "nil" {
		opts.Getter = net
	}
	var out []byte
	var err error
	var panicked any
	viaCLI := h.cli == 1
	returned := make(chan struct{})
	go func() {
		defer close(returned)
		defer func() { panicked = recover() }()
		if !viaCLI {
			out, err = extract.Endorsement(opts)
			return
		}
		io := newMemIO()
		args := []string{"extract", "--out", "out.bin", "--eventlog", opts.EventLogLocation, "--efivarfs", efiRoot, "--firmware_manufacturer", filter}
		if force {
			args = append(args, "--force_fetch")
		}
		if quote != nil {
			io.Files["quote.bin"] = quote
			args = append(args, "quote.bin")
		}
		b := &gcmd.Backend{Now: a.A.Now, IO: io, MakeEfiVariableReader: func(p string) exel.VariableReader { return exel.MakeEfiVarFSReader(p) }}
		if prov != nil {
			b.Provider = prov
		} else {
			b.Provider = &simProvider{r: r, fail: true} // the CLI always wraps a provider; nil would be dereferenced
			provS = "failing"
		}
		if getS != "nil" {
			b.Getter = net
		}
		err = runCLI(b, args...)
		if err == nil {
			out = io.Out["out.bin"].Bytes()
		}
	}()
	// Every source the extraction is given answers at once (files in a scratch directory, the simulated
	// getter, the simulated provider). One that does not come back within twenty seconds of real
	// time is talking to something it was not given: the machine's own network or devices.
	select {
	case <-returned:
	case <-time.After(20 * time.Second):
		r.Fail("network-when-local-available", "does-not-return", "log=%s var=%s quote=%s provider=%s getter=%s force=%v cli=%v: the extraction has not returned after 20 s although every source it was configured with answers immediately — it is waiting for something outside them (a real network request, say)", logS, varS, quoteS, provS, getS, force, viaCLI)
	}
	hostile := logS != "raw+variable+uri" && logS != "variable+uri" || varS != "present" || quoteS == "garbage" || quoteS == "none" || provS == "failing" || getS != "ok"
	where := fmt.Sprintf("log=%s var=%s quote=%s provider=%s getter=%s force=%v filter=%q cli=%v", logS, varS, quoteS, provS, getS, force, filter, viaCLI)
	r.Eventf("extract %s -> err=%v out=%d bytes, %d requests", where, err != nil, len(out), len(net.Requests))
	r.Eval(fmt.Sprintf("%s|err=%v|req=%d|panic=%v", where, err != nil, len(net.Requests), panicked != nil), hostile)
	if panicked != nil {
		r.Probe("panic-in-extract")
		r.Eventf("note: extraction panicked (C07's subject): %v", core.Short(fmt.Sprint(panicked), 120))
		return
	}

	// ---- oracle ----
	// (c) confinement: canary bytes must never come back
	if bytes.Contains(out, canary) {
		r.Fail("efivar-escape", varS, "%s: the result contains the content of a file outside the efivarfs root", where)
	}
	// (b) every requested URL is a log URI locator or derived from a full-length measurement
	measInHand := (qMeasOK && !qTDX) || (pMeasOK && !pTDX && prov != nil)
	mrtdInHand := (qMeasOK && qTDX) || (pMeasOK && pTDX && prov != nil)
	for _, u := range net.Requests {
		switch {
		case hasURI && u == uri && logS != "absent" && logS != "unreadable":
		case measInHand && u == SnpURL(meas):
		case pMeasOK && !pTDX && prov != nil && u == SnpURL(provMeas):
		case mrtdInHand && u == TdxURL(mrtd):
		default:
			key := "other"
			if strings.HasSuffix(u, "/gce_tcb_integrity/") {
				key = "empty-object-name"
			}
			r.Fail("fetch-of-non-measurement-url", key, "%s: the getter was asked for %q, which is neither a URI locator of the event log nor derived from a full-length measurement of a quote in hand", where, u)
		}
	}
	// requests other than following the supplied log's own URI locator
	var otherRequests []string
	for _, u := range net.Requests {
		if !(hasURI && u == uri) {
			otherRequests = append(otherRequests, u)
		}
	}
	// (a) local first
	logUsable := logS != "absent" && logS != "unreadable" && opts.EventLogLocation != ""
	varReadable := varS == "present" || varS == "bom-name"
	var want []byte
	wantWhat := ""
	switch {
	case force:
	case logUsable && hasRaw:
		want, wantWhat = rawData, "raw locator"
	case logUsable && hasVar && varReadable:
		want, wantWhat = varData, "UEFI variable"
	case logUsable && hasVar:
		// the variable locator is there but unreadable: the next local item is the certificate table
		if qEntry {
			want, wantWhat = genuine, "certificate-table entry (supplied quote)"
		} else if quote == nil && pEntry {
			want, wantWhat = genuine, "certificate-table entry (provider quote)"
		}
	case logUsable && hasURI && getS == "ok":
		// the log's own URI locator is followed before the quote (documented order)
	case qEntry:
		want, wantWhat = genuine, "certificate-table entry (supplied quote)"
	case (quote == nil || !qMeasOK) && pEntry && !qEntry && quoteS != "certs-only+entry":
		if quote == nil {
			want, wantWhat = genuine, "certificate-table entry (provider quote)"
		}
	}
	// A supplied quote with a full-length measurement but no certificate-table entry, no usable
	// event-log evidence, no forced fetch: discovery is a function of THAT measurement — the bucket
	// object derived from it — whatever a local quote provider would say about the local VM.
	if want == nil && !force && quote != nil && qMeasOK && !qEntry && getS == "ok" && !(logUsable && (hasRaw || hasVar || hasURI)) {
		wantBody := bucketBody
		if qTDX {
			wantBody = net.Objects[TdxURL(mrtd)]
		}
		if err != nil || !bytes.Equal(out, wantBody) {
			r.Fail("local-evidence-altered", "supplied-quote-measurement-ignored", "%s: the supplied quote names its measurement, but the result (%d bytes, err %v) is not the bucket object derived from it (provider consulted %d times)", where, len(out), err, provCalls(prov))
		}
		r.Probe("fetched-by-supplied-measurement")
	}
	if want != nil {
		r.Probe("local-evidence-present")
		if len(otherRequests) > 0 {
			r.Fail("network-when-local-available", wantWhat, "%s: %d network requests although the %s was available and no fetch was forced: %v", where, len(otherRequests), wantWhat, otherRequests)
		}
		if err != nil {
			r.Fail("local-evidence-altered", "error/"+wantWhat, "%s: extraction failed (%v) although the %s was available", where, err, wantWhat)
		} else if !bytes.Equal(out, want) {
			r.Fail("local-evidence-altered", wantWhat, "%s: the result (%d bytes) is not the %s byte for byte (%d bytes)", where, len(out), wantWhat, len(want))
		}
	}
	if err == nil {
		r.Probe("extracted")
	}
	// A caller that keeps one options value: it forces a fetch once (a refresh), then clears the flag
	// and extracts again. The second call must answer like a call through a fresh options value
	// with the same fields, which is the call judged above.
	if !force && !viaCLI && r.Chance(25, "reused-options-after-forced-fetch?") {
		kept := *opts
		kept.ForceFetch = true
		func() {
			defer func() { _ = recover() }()
			extract.Endorsement(&kept)
		}()
		kept.ForceFetch = false
		before := len(net.Requests)
		var out2 []byte
		var err2 error
		func() {
			defer func() {
				if p := recover(); p != nil {
					err2 = fmt.Errorf("panic: %v", p)
				}
			}()
			out2, err2 = extract.Endorsement(&kept)
		}()
		r.Probe("options-reused-after-forced-fetch")
		if (err2 == nil) != (err == nil) || (err == nil && !bytes.Equal(out2, out)) {
			r.Fail("local-evidence-altered", "reused-options-after-forced-fetch", "%s: through an options value that had forced a fetch before, the extraction gives err=%v and %d bytes (%d more requests); through a fresh options value with the same fields err=%v and %d bytes", where, err2, len(out2), len(net.Requests)-before, err, len(out))
		}
	}
	// The same (long-lived) reader resolves a second variable under the same vendor GUID, then the
	// first again: each read returns that variable's own bytes.
	if varS == "present" && r.Chance(30, "second-variable?") {
		second := append([]byte("RIM-of-the-previous-firmware:"), genuine[:64]...)
		os.WriteFile(filepath.Join(efiRoot, "FirmwareRIMPrev-"+googleGUID), append([]byte{7, 0, 0, 0}, second...), 0o644)
		rd := opts.UEFIVariableReader
		type held struct {
			name      string
			got, want []byte
		}
		var kept []held
		for i, step := range []struct {
			name string
			want []byte
		}{{"FirmwareRIM", varData}, {"FirmwareRIMPrev", second}, {"FirmwareRIM", varData}} {
			got, rerr := rd.ReadVariable(guid, ucs2(step.name))
			if rerr != nil || !bytes.Equal(got, step.want) {
				r.Fail("local-evidence-altered", "variable-reread", "read %d through one reader: variable %s returned %d bytes (err %v), its file holds %d", i, step.name, len(got), rerr, len(step.want))
			}
			kept = append(kept, held{step.name, got, step.want})
		}
		// what a caller was handed stays what it was handed: a later read through the same reader
		// does not rewrite earlier results (the extraction result above included)
		for i, h := range kept {
			if !bytes.Equal(h.got, h.want) {
				r.Fail("local-evidence-altered", "earlier-result-rewritten", "the bytes returned by read %d (%s) changed after later reads through the same reader", i, h.name)
			}
		}
		if want != nil && err == nil && !bytes.Equal(out, want) {
			r.Fail("local-evidence-altered", "earlier-result-rewritten", "%s: the extraction result changed after later reads through the same variable reader", where)
		}
		r.Probe("second-variable-read")
	}
	r.State(fmt.Sprintf("%s|%s|%s|%v", logS, quoteS, provS, err == nil))

	// (d) the events the signer emits for this image parse back to what was emitted
	if r.Index%8 == 0 || r.Chance(10, "events-roundtrip?") {
		c16Events(r, a, img)
	}
	// (e) naming: the repository's object names are injective over the fleet's measurements,
	// technology-separated, and equal to the URL scheme the oracle recomputes independently
	names := map[string]bool{}
	for _, im := range images.Small() {
		for _, m := range [][]byte{im.Digest[:], append([]byte{im.Digest[0] ^ 1}, im.Digest[1:]...), meas} {
			su := verify.GCETcbURL(extractsev.GCETcbObjectName(sev.GCEUefiFamilyID, m))
			tu := verify.GCETcbURL(extracttdx.GCETcbObjectName(m))
			if su != SnpURL(m) || tu != TdxURL(m) {
				r.Fail("fetch-of-non-measurement-url", "naming-scheme", "object naming changed: %s / %s", su, tu)
			}
			if su == tu {
				r.Fail("fetch-of-non-measurement-url", "name-collision", "SEV-SNP and TDX object names collide: %s", su)
			}
			names[su], names[tu] = true, true
		}
	}
	if len(names) != 2*(2*len(images.Small())+1) {
		r.Fail("fetch-of-non-measurement-url", "name-collision", "object names of distinct measurements collide (%d names)", len(names))
	}
	// (f) the validator closure and SevValidate discover the endorsement over the network too: they
	// may only ask for a URL derived from a full-length measurement
	if r.Chance(25, "validator-fetch?") {
		vnet := NewSimNet(r)
		l := []int{0, 1, 47, 49, 96, 48}[r.Intn(6, "report-measurement-len")]
		m := bytes.Repeat([]byte{0x3c}, l)
		if l == 48 {
			m = meas
		}
		entry := "closure"
		if r.Bool("validator-entry") {
			entry = "SevValidate"
			gcetcbendorsement.SevValidate(output.NewContext(context.Background(), &output.Options{Quiet: true}), SnpAttestation(m, nil),
				&gcetcbendorsement.SevValidateOptions{RootsOfTrust: Pool(a.Root), Now: a.A.Now, Getter: vnet})
		} else {
			verify.SNPValidateFunc(&verify.Options{RootsOfTrust: Pool(a.Root), Now: a.A.Now, Getter: vnet})(SnpAttestation(m, nil), nil)
		}
		r.Eval(fmt.Sprintf("validator-fetch|%s|len=%d|req=%d", entry, l, len(vnet.Requests)), l != 48)
		for _, u := range vnet.Requests {
			if l != 48 || u != SnpURL(m) {
				r.Fail("fetch-of-non-measurement-url", "validator/"+entry, "%s asked the network for %s on a report whose measurement has %d bytes", entry, shortURL(u), l)
			}
		}
		r.Probe("validator-fetch")
	}
	r.Sample = map[string]any{"sources": where, "requests": net.Requests, "error": fmt.Sprint(err), "expected": wantWhat}
}

func c16Events(r *core.Run, a *Party, img *images.Image) {
	q := worldp.Req{Image: img, SNP: true, LaunchVmsas: 2, SnapshotDir: "snap", OutDir: "e", Candidate: "snapshot", ClSpec: 5, Timestamp: a.A.Now}
	if r.Bool("long-lived-signer") {
		// a long-lived signing Context that has just signed ANOTHER firmware: the events emitted
		// for this one are about this one
		small := images.Small()
		prior := small[(indexOf(small, img)+1+r.Intn(len(small)-1, "prior-image"))%len(small)]
		if prior == img {
			prior = small[(indexOf(small, img)+1)%len(small)]
		}
		qp := q
		qp.Image, qp.Candidate, qp.ClSpec = prior, "snapshot-prior", 4
		ec := worldp.BuildContext(a.VCS, qp)
		qp.Reuse = ec
		if _, err := worldp.Endorse(r, a.A, a.VCS, qp, ""); err != nil {
			r.HarnessErr = "snapshot endorse of the prior image failed: " + err.Error()
			return
		}
		q.Reuse = ec
		r.Probe("events-from-long-lived-signer")
	}
	if _, err := worldp.Endorse(r, a.A, a.VCS, q, ""); err != nil {
		r.HarnessErr = "snapshot endorse failed: " + err.Error()
		return
	}
	raw, ok := a.VCS.Head[a.VCS.Root+"/snap/"+img.Name+".evts.pb"]
	if !ok {
		r.Fail("events-do-not-round-trip", "missing", "snapshot mode wrote no %s.evts.pb", img.Name)
		return
	}
	evs := &evpb.Sp800155Events{}
	if err := proto.Unmarshal(raw, evs); err != nil {
		r.Fail("events-do-not-round-trip", "container", "the events file does not parse: %v", err)
		return
	}
	var vars, uris []*eventlog.SP800155Event3
	for i, eb := range evs.Events {
		if len(eb) < 16 || !bytes.Equal(eb[:16], eventlog.TcgSP800155Event3Signature[:]) {
			r.Fail("events-do-not-round-trip", "signature", "event %d does not start with the SP800-155 Event3 signature", i)
			continue
		}
		e := &eventlog.SP800155Event3{}
		if err := e.UnmarshalFromBytes(eb[16:]); err != nil {
			r.Fail("events-do-not-round-trip", "decode", "event %d does not parse back: %v", i, err)
			continue
		}
		if back, err := e.MarshalToBytes(); err != nil || !bytes.Equal(back, eb) {
			r.Fail("events-do-not-round-trip", "re-encode", "event %d does not re-encode to the emitted bytes (%v)", i, err)
		}
		switch e.RIMLocatorType {
		case eventlog.RIMLocationVariable:
			vars = append(vars, e)
		case eventlog.RIMLocationURI:
			uris = append(uris, e)
		default:
			r.Fail("events-do-not-round-trip", "locator-type", "event %d has unexpected locator type %d", i, e.RIMLocatorType)
		}
	}
	if len(vars) != 1 || len(uris) != 1 {
		r.Fail("events-do-not-round-trip", "count", "expected one variable and one URI locator, got %d and %d", len(vars), len(uris))
		return
	}
	wantVar := varLocator(uuid.MustParse(googleGUID), ucs2("FirmwareRIM"))
	if !bytes.Equal(vars[0].RIMLocator.Data, wantVar) {
		r.Fail("events-do-not-round-trip", "variable-locator", "the variable locator is not FirmwareRIM under the Google GUID: %x", vars[0].RIMLocator.Data)
	}
	wantURI := "https://storage.googleapis.com/gce_tcb_integrity/ovmf_x64_csm/" + hex.EncodeToString(img.Digest[:]) + ".fd.signed"
	if string(uris[0].RIMLocator.Data) != wantURI {
		r.Fail("events-do-not-round-trip", "uri-locator", "the URI locator %q is not the bucket URL derived from the image's SHA-384 (%q)", uris[0].RIMLocator.Data, wantURI)
	}
	if vars[0].ReferenceManifestGUID.UUID != uris[0].ReferenceManifestGUID.UUID {
		r.Fail("events-do-not-round-trip", "manifest-guid", "the two events carry different manifest GUIDs")
	}
	r.Probe("events-round-tripped")
}

func provCalls(p *simProvider) int {
	if p == nil {
		return 0
	}
	return p.n
}
