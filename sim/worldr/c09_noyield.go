//go:build !verifyield

package worldr

const instrumented = false

func setYieldHook(func(string)) {}

func setBlockedHook(func(string)) {}
