//go:build race && verif

package worldr

// The C09 race probe. The deterministic scheduler of the C09 worker decides which goroutine runs
// between statements, so it cannot see a conflict *inside* one (an unsynchronised map that two
// calls of one validator read and write): for that the Go race detector is the instrument. This
// probe is built with -race from the unmodified repository and calls one validator (or validators
// sharing one options value) from several goroutines that really run in parallel. The race
// detector reports conflicting accesses that no synchronisation orders, whether or not they
// overlapped in time; with GORACE=halt_on_error=1 the first report ends the process with exit 66.
// Everything the goroutines share on the harness side is read-only (see raceGetter).
//
// Scenarios are drawn from VERIF_SEED; "race-probe: scenario N ..." is printed before each so that
// the orchestrator can name the scenario a report belongs to and run it alone (VERIF_RACE_ONLY).

import (
	"context"
	"fmt"
	"os"
	"strconv"
	"sync"
	"sync/atomic"
	"testing"
	"time"

	cpb "github.com/google/go-sev-guest/proto/check"
	spb "github.com/google/go-sev-guest/proto/sevsnp"

	"github.com/google/gce-tcb-verifier/cmd/output"
	"github.com/google/gce-tcb-verifier/extract/extractsev"
	"github.com/google/gce-tcb-verifier/gcetcbendorsement"
	"github.com/google/gce-tcb-verifier/verify"

	"verifsim/core"
	"verifsim/images"
	"verifsim/worldp"
)

// raceGetter serves a fixed set of objects. Nothing in it is written after construction.
type raceGetter struct{ objects map[string][]byte }

func (g *raceGetter) Get(url string) ([]byte, error) {
	b, ok := g.objects[url]
	if !ok {
		return nil, fmt.Errorf("race-probe getter: no object at %s", url)
	}
	return append([]byte(nil), b...), nil
}

func envInt(name string, def int) int {
	if v, err := strconv.Atoi(os.Getenv(name)); err == nil {
		return v
	}
	return def
}

func TestRaceProbe(t *testing.T) {
	seed := uint64(envInt("VERIF_SEED", 1))
	n := 24
	if os.Getenv("VERIF_TIER") == "thorough" {
		n = 400
	}
	only := envInt("VERIF_RACE_ONLY", -1)
	calls := int64(0)
	for sc := 0; sc < n; sc++ {
		if only >= 0 && sc != only {
			continue
		}
		// the world of one scenario is built by this goroutine alone, from the scenario's own PRNG
		r := core.NewRun("C09", "quick", sc, seed, core.NewSeeded(seed*1000003+uint64(sc), nil), nil)
		a := NewParty(r, "a", 0)
		small := images.Small()
		is := a.Endorse(r, worldp.Req{Image: small[r.Intn(len(small), "image")], SNP: true})
		otherIs := a.Endorse(r, worldp.Req{Image: small[(indexOf(small, is.Image)+1)%len(small)], SNP: true})
		now := a.A.Now.Add(time.Hour)
		get := &raceGetter{objects: map[string][]byte{}}
		for _, m := range is.Golden.SevSnp.Measurements {
			get.objects[SnpURL(m)] = is.Bytes
		}
		for _, m := range otherIs.Golden.SevSnp.Measurements {
			get.objects[SnpURL(m)] = is.Bytes // something to fetch for an unendorsed report
			get.objects[verify.GCETcbURL(extractsev.GCETcbObjectName(c09OtherFamily, m))] = is.Bytes
		}
		roots := Pool(a.Root)
		shape := r.Intn(4, "shared")
		named := uint32(0)
		if r.Chance(30, "named-count?") {
			named = []uint32{2, 4, 8}[r.Intn(3, "named")]
		}
		goroutines := 3 + r.Intn(4, "goroutines")
		perG := 6 + r.Intn(10, "calls-per-goroutine")
		fmt.Printf("race-probe: scenario %d shape=%d named=%d goroutines=%d calls=%d\n", sc, shape, named, goroutines, perG)
		os.Stdout.Sync()

		// every call's inputs are made here, one set per call: the goroutines share only the validator
		type job struct {
			at     *spb.Attestation
			blob   []byte
			source int
		}
		jobs := make([][]job, goroutines)
		for g := range jobs {
			for c := 0; c < perG; c++ {
				j := job{source: r.Intn(3, "source")}
				meas := is.Golden.SevSnp.Measurements[[]uint32{2, 4, 8, 16}[r.Intn(4, "count")]]
				switch r.Intn(4, "meas") {
				case 0:
					meas = otherIs.Golden.SevSnp.Measurements[2]
				case 1:
					if named != 0 {
						meas = is.Golden.SevSnp.Measurements[named]
					}
				}
				if shape == 2 && j.source == 2 {
					j.source = 1
				}
				switch j.source {
				case 0:
					j.blob = append([]byte(nil), is.Bytes...)
					if r.Chance(25, "other-blob") {
						j.blob = append([]byte(nil), otherIs.Bytes...)
					}
					if shape == 2 {
						j.at = SnpAttestation(meas, j.blob)
					} else {
						j.at = SnpAttestation(meas, nil)
					}
				default:
					j.at = SnpAttestation(meas, nil)
				}
				jobs[g] = append(jobs[g], j)
			}
		}
		opts := &verify.Options{RootsOfTrust: roots, Now: now, Getter: get}
		if shape != 3 {
			opts.SNP = &verify.SNPOptions{ExpectedLaunchVMSAs: named}
		}
		sevOpts := &gcetcbendorsement.SevValidateOptions{RootsOfTrust: roots, Now: now, Getter: get, ExpectedLaunchVmsas: named}
		if r.Bool("base-policy?") {
			sevOpts.BasePolicy = &cpb.Policy{MinimumVersion: "0.0", Policy: ProdPolicy}
		}
		closure := verify.SNPValidateFunc(opts)
		ctx := output.NewContext(context.Background(), &output.Options{Quiet: true})
		start := make(chan struct{})
		var wg sync.WaitGroup
		for g := 0; g < goroutines; g++ {
			wg.Add(1)
			go func(mine []job) {
				defer wg.Done()
				defer func() { _ = recover() }() // a panic is the deterministic worker's business
				f := closure
				if shape == 1 {
					f = verify.SNPValidateFunc(opts) // own validator, shared options value
				}
				<-start
				for _, j := range mine {
					switch {
					case shape == 2:
						_ = gcetcbendorsement.SevValidate(ctx, j.at, sevOpts)
					case j.source == 0:
						_ = f(j.at, j.blob)
					default:
						_ = f(j.at, nil)
					}
					atomic.AddInt64(&calls, 1)
				}
			}(jobs[g])
		}
		close(start)
		wg.Wait()
	}
	fmt.Printf("race-probe: done scenarios=%d calls=%d\n", n, atomic.LoadInt64(&calls))
}
