//go:build go1.25 && verifyield

package worldr

import (
	"context"
	"flag"
	"fmt"
	"os"
	"testing"
	"testing/synctest"
	"time"

	"github.com/google/gce-tcb-verifier/cmd/output"
	"github.com/google/gce-tcb-verifier/gcetcbendorsement"
	"github.com/google/gce-tcb-verifier/verify"

	"verifsim/core"
)

var c09T *testing.T

// TestWorker is the entry point of the C09 worker binary (a test binary, because the wall-clock
// scenario below needs testing/synctest): it hands the command line to the shared dispatcher.
func TestWorker(t *testing.T) {
	c09T = t
	args := flag.Args()
	if len(args) == 0 {
		t.Skip("worker binary: no sub-command given")
	}
	os.Exit(core.Main(args))
}

func init() { c09WallClock = wallClockScenario }

// wallClockScenario: a caller that leaves Options.Now unset lets the verifier read the wall clock.
// Inside a synctest bubble that clock is virtual: a validator is built and used while the signing
// certificate is valid, the clock then jumps past the certificate's expiry, and the SAME validator
// is used again. Every call must decide like a validator built at that moment.
func wallClockScenario(r *core.Run, is *Issued, a *Party) {
	if c09T == nil {
		return
	}
	var carried any
	func() {
		defer func() {
			if p := recover(); p != nil && carried == nil {
				carried = p
			}
		}()
		synctest.Test(c09T, func(*testing.T) {
			defer func() {
				if p := recover(); p != nil {
					carried = p
				}
			}()
			meas := is.Golden.SevSnp.Measurements[2]
			jump := func(to time.Time) {
				if d := time.Until(to); d > 0 {
					time.Sleep(d)
				}
			}
			type phase struct {
				name string
				at   time.Time
			}
			phases := []phase{{"inside", is.Cert.NotBefore.Add(time.Hour)}, {"inside-later", is.Cert.NotBefore.Add(48 * time.Hour)},
				{"after-expiry", is.Cert.NotAfter.Add(24 * time.Hour)}}
			if r.Bool("wall-clock-starts-before-validity") {
				phases = append([]phase{{"before-validity", is.Cert.NotBefore.Add(-24 * time.Hour)}}, phases...)
			}
			jump(phases[0].at)
			opts := &verify.Options{RootsOfTrust: Pool(a.Root)}
			longLived := verify.SNPValidateFunc(opts)
			// one options value, Now unset, handed to the one-shot entry point again and again
			reused := &verify.Options{RootsOfTrust: Pool(a.Root)}
			for _, ph := range phases {
				jump(ph.at)
				freshOpts := &verify.Options{RootsOfTrust: Pool(a.Root)}
				want := verify.SNPValidateFunc(freshOpts)(SnpAttestation(meas, nil), is.Bytes)
				got := longLived(SnpAttestation(meas, nil), is.Bytes)
				r.Eval("wall-clock|"+ph.name+fmt.Sprintf("|accept=%v", got == nil), true)
				r.Eventf("wall-clock phase %s at %s: long-lived accept=%v fresh accept=%v", ph.name, time.Now().UTC().Format(time.RFC3339), got == nil, want == nil)
				// leaving Now unset means "now": the one-shot entry points decide as with the clock's
				// reading given explicitly
				unset := verify.Endorsement(is.Bytes, &verify.Options{RootsOfTrust: Pool(a.Root)})
				explicit := verify.Endorsement(is.Bytes, &verify.Options{RootsOfTrust: Pool(a.Root), Now: time.Now()})
				if (unset == nil) != (explicit == nil) {
					r.Fail("result-differs-from-isolation", "wall-clock/unset-vs-explicit/"+ph.name, "verify.Endorsement with Now unset gives accept=%v at wall-clock time %s, with that time given explicitly accept=%v (%v / %v)",
						unset == nil, time.Now().UTC().Format(time.RFC3339), explicit == nil, unset, explicit)
				}
				viaReused := verify.Endorsement(is.Bytes, reused)
				if (viaReused == nil) != (explicit == nil) || !reused.Now.IsZero() {
					r.Fail("result-differs-from-isolation", "wall-clock/reused-options/"+ph.name, "verify.Endorsement through an options value used before (Now unset) gives accept=%v at wall-clock time %s, a fresh one with that time accept=%v; the caller's Now is now %v",
						viaReused == nil, time.Now().UTC().Format(time.RFC3339), explicit == nil, reused.Now)
				}
				sctx := output.NewContext(context.Background(), &output.Options{Quiet: true})
				sUnset := gcetcbendorsement.SevValidate(sctx, SnpAttestation(meas, is.Bytes), &gcetcbendorsement.SevValidateOptions{RootsOfTrust: Pool(a.Root)})
				sExplicit := gcetcbendorsement.SevValidate(sctx, SnpAttestation(meas, is.Bytes), &gcetcbendorsement.SevValidateOptions{RootsOfTrust: Pool(a.Root), Now: time.Now()})
				if (sUnset == nil) != (sExplicit == nil) {
					r.Fail("result-differs-from-isolation", "wall-clock/unset-vs-explicit/SevValidate/"+ph.name, "SevValidate with Now unset gives accept=%v at wall-clock time %s, with that time given explicitly accept=%v (%v / %v)",
						sUnset == nil, time.Now().UTC().Format(time.RFC3339), sExplicit == nil, sUnset, sExplicit)
				}
				if (got == nil) != (want == nil) {
					r.Fail("result-differs-from-isolation", "wall-clock/"+ph.name, "a validator built at %s with no Now set gives accept=%v at wall-clock time %s (%s); a validator built at that moment gives accept=%v (%v)",
						phases[0].at.UTC().Format(time.RFC3339), got == nil, time.Now().UTC().Format(time.RFC3339), ph.name, want == nil, want)
				}
			}
			r.Probe("wall-clock-scenario")
		})
	}()
	if carried != nil {
		panic(carried)
	}
}
