//go:build verifyield

package worldr

import "github.com/google/gce-tcb-verifier/verifyield"

// instrumented reports whether this binary was built against the yield-instrumented copy.
const instrumented = true

func setYieldHook(f func(string)) { verifyield.Hook = f }

func setBlockedHook(f func(string)) { verifyield.BlockedHook = f }
