package worldr

import (
	"bytes"
	"context"
	"fmt"
	"sort"
	"time"

	"github.com/google/gce-tcb-verifier/cmd/output"
	"github.com/google/gce-tcb-verifier/gcetcbendorsement"
	gcmd "github.com/google/gce-tcb-verifier/gcetcbendorsement/cmd"
	epb "github.com/google/gce-tcb-verifier/proto/endorsement"
	"github.com/google/gce-tcb-verifier/verify"
	cpb "github.com/google/go-sev-guest/proto/check"
	spb "github.com/google/go-sev-guest/proto/sevsnp"
	sgvalidate "github.com/google/go-sev-guest/validate"
	tcpb "github.com/google/go-tdx-guest/proto/checkconfig"
	tdvalidate "github.com/google/go-tdx-guest/validate"
	tpmpb "github.com/google/go-tpm-tools/proto/attest"
	"google.golang.org/protobuf/proto"

	"verifsim/core"
	"verifsim/images"
	"verifsim/worldp"
)

func init() {
	core.Register(&core.Check{
		ID: "C02", World: "R (relying party)", Level: "exploration",
		Rule: "one evaluation = one validation call (verify.SNP, the SNP validator closure, SevValidate, the SevPolicy-derived policy consumed by go-sev-guest, TdxValidate, the TdxPolicy-derived policy consumed by go-tdx-guest, the sev validate / tdx validate commands) of a fabricated report/quote against a validly signed endorsement whose table is a drawn subset of VMSA counts (+ optional SVSM value) or TDX rows; " +
			"the report measurement is drawn from {listed for a count/row, listed for another count/row, another image's, one-bit neighbour, wrong length 0/47/49}; the verifier names a listed / unlisted / no VMSA count or RAM size and a right / wrong / no expected firmware digest; " +
			"oracle = the endorsed table as a map: on acceptance the measurement is listed, matches the named configuration, the digest matches, and an unlisted named configuration was rejected; non-trivial = the measurement is not the one listed for the named configuration, or the configuration/digest is not the matching one; distinct by (entry, measurement class, config class, digest class, outcome)",
		Assumptions: []string{
			"one VMSA named: {table[1]} ∪ {svsm} is accepted (verify.SNP reads it as an SVSM launch, SevPolicy as table[1]) — the weakest reading",
			"SevPolicy is consumed with a named count only: with launch_vmsas=0 and allow-unspecified it documents that the measurement is disregarded",
			"measurement values themselves come from the repository's own sev/tdx code (C04/C05 are not claimed)",
		},
		Components: []core.Component{
			{Name: "verify.SNP / SNPValidateFunc / EndorsementProto, SevValidate, TdxValidate, SevPolicy, TdxPolicy, cmd sev|tdx validate", Kind: "real"},
			{Name: "go-sev-guest / go-tdx-guest validate", Kind: "real"},
			{Name: "authority + endorse pipeline (signing of generated tables)", Kind: "real"},
			{Name: "network, file IO", Kind: "stub"},
		},
		Budget: core.StdBudget(2500, 100*time.Second, 300000, 9*time.Minute),
		Body:   runC02,
	})
}

type tdxRow struct {
	ram   uint32
	early bool
	mrtd  []byte
}

func flipBit(b []byte, i int) []byte {
	o := append([]byte(nil), b...)
	if len(o) > 0 {
		o[(i/8)%len(o)] ^= 1 << (i % 8)
	}
	return o
}

func runC02(r *core.Run) {
	a := NewParty(r, "a", r.Intn(2, "rotations"))
	small := images.Small()
	img := small[r.Intn(len(small), "image")]
	other := small[(r.Intn(len(small)-1, "other-image")+1+indexOf(small, img))%len(small)]
	tdxWorld := r.Chance(35, "tdx-world?")
	var full, otherIs *Issued
	if tdxWorld {
		pool := images.Pool()
		full = a.Endorse(r, worldp.Req{Image: pool[4], SNP: true, LaunchVmsas: 2, TDX: true, Shapes: []string{"c3-standard-4", "c3-standard-8"}, EarlyAccept: true})
		otherIs = a.Endorse(r, worldp.Req{Image: pool[5], TDX: true})
	} else {
		full = a.Endorse(r, worldp.Req{Image: img, SNP: true, Genoa: r.Chance(30, "genoa?")})
		otherIs = a.Endorse(r, worldp.Req{Image: other, SNP: true})
	}
	cur := a.Current()
	// ---- the endorsed table: a drawn subset, validly signed ----
	g := proto.Clone(full.Golden).(*epb.VMGoldenMeasurement)
	table := map[uint32][]byte{}
	var svsm []byte
	var rows []tdxRow
	if !tdxWorld {
		var counts []uint32
		for c := range g.SevSnp.Measurements {
			counts = append(counts, c)
		}
		sort.Slice(counts, func(i, j int) bool { return counts[i] < counts[j] })
		mode := r.Intn(3, "table-mode") // 0 all, 1 single count, 2 random subset
		keep := map[uint32]bool{}
		switch mode {
		case 0:
			for _, c := range counts {
				keep[c] = true
			}
		case 1:
			keep[counts[r.Intn(len(counts), "single-count")]] = true
		default:
			for _, c := range counts {
				if r.Bool("keep-count") {
					keep[c] = true
				}
			}
			if len(keep) == 0 {
				keep[counts[0]] = true
			}
		}
		if r.Chance(6, "empty-table?") {
			// an authentic endorsement that lists no SEV-SNP measurement at all
			keep = map[uint32]bool{}
			r.Probe("empty-measurement-table")
		}
		for _, c := range counts {
			if keep[c] {
				table[c] = g.SevSnp.Measurements[c]
			} else {
				delete(g.SevSnp.Measurements, c)
			}
		}
		if r.Chance(35, "svsm?") {
			svsm = bytes.Repeat([]byte{byte(0x70 + r.Intn(8, "svsm-byte"))}, 48)
			g.SevSnp.SvsmMeasurement = svsm
		}
	} else {
		var keepRows []*epb.VMTdx_Measurement
		for _, m := range g.Tdx.Measurements {
			if m.RamGib == 0 || r.Chance(70, "keep-row") {
				keepRows = append(keepRows, m)
				rows = append(rows, tdxRow{m.RamGib, m.EarlyAccept, m.Mrtd})
			}
		}
		if r.Chance(15, "drop-default-row") && len(keepRows) > 1 {
			keepRows, rows = keepRows[:len(keepRows)-1], rows[:len(rows)-1]
		}
		if len(keepRows) > 1 && r.Chance(30, "duplicate-mrtd?") {
			// unusual but legal: two rows (say the early- and late-accept variants of one RAM size)
			// carry the same MRTD
			i := r.Intn(len(keepRows), "dup-from")
			j := (i + 1 + r.Intn(len(keepRows)-1, "dup-to")) % len(keepRows)
			keepRows[j] = &epb.VMTdx_Measurement{RamGib: keepRows[j].RamGib, EarlyAccept: keepRows[j].EarlyAccept, Mrtd: keepRows[i].Mrtd}
			rows[j].mrtd = keepRows[i].Mrtd
			r.Probe("duplicate-mrtd-rows")
		}
		g.Tdx.Measurements = keepRows
		for c, m := range g.GetSevSnp().GetMeasurements() {
			table[c] = m
		}
	}
	endorsement := Reassemble(g, nil, cur.Key, 0)
	le := &epb.VMLaunchEndorsement{}
	if err := proto.Unmarshal(endorsement, le); err != nil {
		panic(err)
	}
	now := a.A.Now.Add(time.Hour)
	roots := Pool(a.Root)
	if err := verify.Endorsement(endorsement, &verify.Options{RootsOfTrust: roots, Now: now}); err != nil {
		r.HarnessErr = "generated endorsement does not verify: " + err.Error()
		return
	}
	net := NewSimNet(r)
	ctx := output.NewContext(context.Background(), &output.Options{Quiet: true})

	listed := func(m []byte) bool {
		if len(m) != 48 {
			return false
		}
		for _, v := range table {
			if bytes.Equal(v, m) {
				return true
			}
		}
		return len(svsm) > 0 && bytes.Equal(svsm, m)
	}
	listedTdx := func(m []byte, ram int) (any, forRam bool) {
		for _, row := range rows {
			if bytes.Equal(row.mrtd, m) && len(m) == 48 {
				any = true
				if ram != 0 && int(row.ram) == ram {
					forRam = true
				}
			}
		}
		return
	}
	// long-lived validator closures, one per (named count, expected digest class): the documented
	// go-sev-guest usage keeps a validator and calls it for many reports
	closures := map[string]func(*spb.Attestation, []byte) error{}
	closure := func(named uint32, digClass string, digest []byte, getter bool) func(*spb.Attestation, []byte) error {
		// a caller that names no count may leave the optional SNP options out altogether
		omit := named == 0 && r.Bool("omit-snp-options")
		key := fmt.Sprintf("%d/%s/%v/%v", named, digClass, getter, omit)
		if f, ok := closures[key]; ok {
			r.Probe("closure-reused")
			return f
		}
		o := &verify.Options{SNP: &verify.SNPOptions{ExpectedLaunchVMSAs: named}, ExpectedUefiSha384: digest, RootsOfTrust: roots, Now: now}
		if omit {
			o.SNP = nil
		}
		if getter {
			o.Getter = net
		}
		closures[key] = verify.SNPValidateFunc(o)
		return closures[key]
	}
	// prime them with one good report each, so whatever a validator remembers is in place
	if !tdxWorld {
		var first uint32
		found := false
		for c := range table {
			if !found || c < first {
				first, found = c, true
			}
		}
		if found {
			if err := closure(0, "none", nil, false)(SnpAttestation(table[first], nil), endorsement); err == nil {
				r.Probe("closure-primed")
			}
		}
	}
	var samples []string
	// options values a caller keeps across quotes (the TDX entry points take a pointer)
	var tdxOpts *gcetcbendorsement.TdxValidateOptions
	var tdxPolOpts *gcetcbendorsement.TdxPolicyOptions
	// ---- expected firmware digest without any SNP options (a TDX relying party, or someone
	// checking a firmware binary against its endorsement): the endorsed digest must equal it ----
	for k, nd := 0, 1+r.Intn(2, "digest-only-calls"); k < nd; k++ {
		var digest []byte
		digClass := ""
		switch r.Intn(6, "digest-only-class") {
		case 0, 1:
			digest, digClass = g.Digest, "right"
		case 2:
			digest, digClass = otherIs.Golden.Digest, "other-image"
		case 3:
			digest, digClass = flipBit(g.Digest, r.Intn(384, "digest-bit")), "one-bit-neighbour"
		case 4:
			digest, digClass = g.Digest[:47], "truncated"
		default:
			digest, digClass = append(append([]byte(nil), g.Digest...), 0), "extended"
		}
		o := &verify.Options{ExpectedUefiSha384: digest, RootsOfTrust: roots, Now: now}
		name := "verify.Endorsement/digest-only"
		var err error
		subject, subjectLE, endorsedDigest := endorsement, le, g.Digest
		if r.Chance(20, "endorsement-without-digest?") {
			// a validly signed endorsement that carries no firmware digest at all (the field is
			// optional on the wire): it cannot equal any digest the caller expects
			g2 := proto.Clone(g).(*epb.VMGoldenMeasurement)
			g2.Digest = nil
			subject = Reassemble(g2, nil, cur.Key, 0)
			subjectLE = &epb.VMLaunchEndorsement{}
			if uerr := proto.Unmarshal(subject, subjectLE); uerr != nil {
				panic(uerr)
			}
			endorsedDigest, digClass = nil, digClass+"/endorsement-without-digest"
		}
		if r.Bool("digest-only-proto") {
			name = "verify.EndorsementProto/digest-only"
			err = verify.EndorsementProto(subjectLE, o)
		} else {
			err = verify.Endorsement(subject, o)
		}
		outcome := "reject"
		if err == nil {
			outcome = "accept"
		}
		r.Eval(fmt.Sprintf("%s|%s|tdx=%v|%s", name, digClass, tdxWorld, outcome), digClass != "right")
		r.Eventf("digest-only entry=%s digest=%s -> %s", name, digClass, outcome)
		if err == nil && !bytes.Equal(digest, endorsedDigest) {
			r.Fail("accept-digest-mismatch", name, "%s accepted although the expected firmware digest (%s) differs from the endorsed one", name, digClass)
		}
	}
	nCalls := 3 + r.Intn(6, "calls")
	for i := 0; i < nCalls; i++ {
		if !tdxWorld {
			// ---------- SNP ----------
			var counts []uint32
			for c := range table {
				counts = append(counts, c)
			}
			// (an endorsement that lists nothing: the firmware's real measurements are what reports
			// carry, none of them listed)
			src := table
			if len(counts) == 0 {
				src = full.Golden.SevSnp.Measurements
				for c := range src {
					counts = append(counts, c)
				}
			}
			sort.Slice(counts, func(i, j int) bool { return counts[i] < counts[j] })
			// named count
			var named uint32
			cfgClass := "none"
			switch r.Intn(4, "named-count") {
			case 1:
				named, cfgClass = counts[r.Intn(len(counts), "listed-count")], "listed"
				if _, ok := table[named]; !ok {
					cfgClass = "unlisted"
				}
			case 2:
				for _, c := range []uint32{1, 2, 3, 4, 5, 8, 16, 224, 240, 999} {
					if _, ok := table[c]; !ok && !(c == 1 && len(svsm) > 0) {
						named, cfgClass = c, "unlisted"
						if r.Bool("next-unlisted") {
							break
						}
					}
				}
			case 3:
				named, cfgClass = 1, "one"
				if _, ok := table[1]; !ok && len(svsm) == 0 {
					cfgClass = "unlisted"
				}
			}
			// measurement
			var meas []byte
			measClass := ""
			switch r.Intn(8, "meas-class") {
			case 0, 1:
				c := named
				if _, ok := table[c]; !ok {
					c = counts[r.Intn(len(counts), "meas-count")]
				}
				meas, measClass = src[c], "listed-for-named-or-some"
			case 2:
				meas, measClass = src[counts[r.Intn(len(counts), "meas-other-count")]], "listed-for-drawn-count"
			case 3:
				oc := otherIs.Golden.SevSnp.Measurements
				var ocs []uint32
				for c := range oc {
					ocs = append(ocs, c)
				}
				sort.Slice(ocs, func(i, j int) bool { return ocs[i] < ocs[j] })
				meas, measClass = oc[ocs[r.Intn(len(ocs), "other-image-count")]], "other-image"
			case 4:
				meas, measClass = flipBit(src[counts[r.Intn(len(counts), "nb-count")]], r.Intn(384, "nb-bit")), "one-bit-neighbour"
			case 5:
				l := []int{0, 47, 49}[r.Intn(3, "bad-len")]
				meas, measClass = bytes.Repeat([]byte{0x11}, l), "wrong-length"
				if l == 47 {
					meas = src[counts[0]][:47]
				} else if l == 49 {
					meas = append(append([]byte(nil), src[counts[0]]...), 0)
				}
			case 6:
				if len(svsm) > 0 {
					meas, measClass = svsm, "svsm"
				} else {
					meas, measClass = full.Golden.SevSnp.Measurements[pickDropped(full.Golden.SevSnp.Measurements, table)], "dropped-from-table"
					if meas == nil {
						meas, measClass = src[counts[0]], "listed-for-drawn-count"
					}
				}
			default:
				meas, measClass = bytes.Repeat([]byte{0}, 48), "all-zero"
			}
			// expected digest
			var digest []byte
			digClass := "none"
			switch r.Intn(4, "digest") {
			case 1:
				digest, digClass = g.Digest, "right"
			case 2:
				digest, digClass = otherIs.Golden.Digest, "wrong"
			}
			entry := r.Intn(9, "snp-entry")
			var err error
			name := ""
			digestUsed := false
			// an optional caller base policy carrying a stale (not endorsed) measurement
			var basePol *cpb.Policy
			overwrite := false
			staleMeas := bytes.Repeat([]byte{0xEE}, 48)
			if r.Chance(30, "base-policy?") {
				basePol = &cpb.Policy{MinimumVersion: "0.0", Policy: ProdPolicy}
				if r.Bool("base-has-measurement") {
					basePol.Measurement = staleMeas
				}
				overwrite = r.Bool("policy-overwrite")
				if r.Chance(40, "report-carries-stale") {
					meas, measClass = staleMeas, "base-policy-stale"
				}
			}
			func() {
				defer func() {
					if p := recover(); p != nil {
						err = fmt.Errorf("panic: %v", p)
						r.Probe("panic-in-entry-point")
					}
				}()
				switch entry {
				case 0:
					name = "verify.SNP"
					err = verify.SNP(g, &verify.SNPOptions{Measurement: meas, ExpectedLaunchVMSAs: named})
				case 1:
					name, digestUsed = "closure", true
					err = closure(named, digClass, digest, false)(SnpAttestation(meas, nil), endorsement)
				case 2:
					name, digestUsed = "closure/getter", true
					net.Objects = map[string][]byte{SnpURL(meas): endorsement}
					err = closure(named, digClass, digest, true)(SnpAttestation(meas, nil), nil)
				case 3:
					name = "SevValidate/extras"
					err = gcetcbendorsement.SevValidate(ctx, SnpAttestation(meas, endorsement), &gcetcbendorsement.SevValidateOptions{RootsOfTrust: roots, Now: now, ExpectedLaunchVmsas: named, BasePolicy: basePol, Overwrite: overwrite})
				case 4:
					name = "SevValidate/given"
					err = gcetcbendorsement.SevValidate(ctx, SnpAttestation(meas, nil), &gcetcbendorsement.SevValidateOptions{Endorsement: le, RootsOfTrust: roots, Now: now, ExpectedLaunchVmsas: named, BasePolicy: basePol, Overwrite: overwrite})
				case 5:
					name = "SevPolicy+validate"
					if named == 0 {
						named, cfgClass = counts[0], "listed"
					}
					// (with a count named, also allowing an unspecified one changes nothing: the named count pins)
					pol, perr := gcetcbendorsement.SevPolicy(ctx, le, &gcetcbendorsement.SevPolicyOptions{LaunchVmsas: named, Base: basePol, Overwrite: overwrite, AllowUnspecifiedVmsas: r.Bool("allow-unspecified-too")})
					if perr != nil {
						err = perr
						break
					}
					vopts, perr := sgvalidate.PolicyToOptions(pol)
					if perr != nil {
						err = perr
						break
					}
					err = sgvalidate.SnpAttestation(SnpAttestation(meas, nil), vopts)
				case 7:
					// the caller names this endorsement; the attestation's certificate table carries
					// ANOTHER validly signed endorsement (another firmware's): the named one decides
					name = "SevValidate/given+other-table"
					err = gcetcbendorsement.SevValidate(ctx, SnpAttestation(meas, otherIs.Bytes), &gcetcbendorsement.SevValidateOptions{Endorsement: le, RootsOfTrust: roots, Now: now, ExpectedLaunchVmsas: named})
				case 8:
					name, digestUsed = "closure/options+other-table", true
					f := verify.SNPValidateFunc(&verify.Options{SNP: &verify.SNPOptions{ExpectedLaunchVMSAs: named}, ExpectedUefiSha384: digest, RootsOfTrust: roots, Now: now, Endorsement: le})
					err = f(SnpAttestation(meas, nil), otherIs.Bytes)
				default:
					name = "cli/sev-validate"
					io := newMemIO()
					io.Files["e.binarypb"], io.Files["roots.pem"] = endorsement, pemOf(a.Root)
					io.Files["att.bin"], _ = proto.Marshal(&tpmpb.Attestation{TeeAttestation: &tpmpb.Attestation_SevSnpAttestation{SevSnpAttestation: SnpAttestation(meas, nil)}})
					args := []string{"sev", "validate", "--root_cert", "roots.pem", "--endorsement", "e.binarypb"}
					if named != 0 {
						args = append(args, fmt.Sprintf("--launch_vmsas=%d", named))
					}
					err = runCLI(&gcmd.Backend{Getter: net, Now: now, IO: io}, append(args, "att.bin")...)
				}
			}()
			if !digestUsed {
				digClass = "n/a"
			}
			outcome := "reject"
			if err == nil {
				outcome = "accept"
			}
			okForNamed := false
			if named == 0 {
				okForNamed = listed(meas)
			} else {
				if v, ok := table[named]; ok && bytes.Equal(v, meas) {
					okForNamed = true
				}
				if named == 1 && len(svsm) > 0 && bytes.Equal(svsm, meas) {
					okForNamed = true
				}
			}
			nontrivial := !okForNamed || cfgClass == "unlisted" || digClass == "wrong"
			r.Eval(fmt.Sprintf("%s|%s|%s|%s|%s", name, measClass, cfgClass, digClass, outcome), nontrivial)
			r.Eventf("snp entry=%s meas=%s named=%s(%d) digest=%s -> %s", name, measClass, cfgClass, named, digClass, outcome)
			if len(samples) < 4 {
				samples = append(samples, fmt.Sprintf("%s meas=%s named=%d(%s) digest=%s table=%v svsm=%v -> %s", name, measClass, named, cfgClass, digClass, counts, len(svsm) > 0, outcome))
			}
			if err == nil {
				r.Probe("accepted:" + name)
				switch {
				case !listed(meas):
					r.Fail("accept-unendorsed", name, "%s accepted a report whose measurement (%s, %d bytes) is not listed in the endorsement (table %v, svsm=%v, named %d)", name, measClass, len(meas), counts, len(svsm) > 0, named)
				case cfgClass == "unlisted":
					r.Fail("accept-unlisted-config", name, "%s accepted although %d VMSAs were named and the endorsement lists no measurement for that count (table %v)", name, named, counts)
				case !okForNamed:
					r.Fail("accept-wrong-config", name, "%s accepted a measurement (%s) that is listed, but not for the %d VMSAs the caller named", name, measClass, named)
				case digClass == "wrong":
					r.Fail("accept-digest-mismatch", name, "%s accepted although the expected firmware digest differs from the endorsed one", name)
				}
			}
			continue
		}
		// ---------- TDX ----------
		if r.Chance(12, "snp-report-against-tdx-only-endorsement?") {
			// the same firmware endorsed for TDX alone (no sev_snp section), validly signed, and an
			// SEV-SNP report checked against it: it lists no SEV-SNP measurement, so nothing is accepted
			tg := proto.Clone(g).(*epb.VMGoldenMeasurement)
			tg.SevSnp = nil
			tdxOnly := Reassemble(tg, nil, a.Current().Key, 0)
			tle := &epb.VMLaunchEndorsement{}
			proto.Unmarshal(tdxOnly, tle)
			rm := full.Golden.SevSnp.Measurements[[]uint32{1, 2, 4}[r.Intn(3, "snp-report-count")]]
			named := []uint32{0, 1, 4}[r.Intn(3, "snp-named")]
			var serr error
			sname := ""
			switch r.Intn(3, "snp-vs-tdx-only-entry") {
			case 0:
				sname = "closure(tdx-only endorsement)"
				serr = verify.SNPValidateFunc(&verify.Options{SNP: &verify.SNPOptions{ExpectedLaunchVMSAs: named}, RootsOfTrust: roots, Now: now})(SnpAttestation(rm, nil), tdxOnly)
			case 1:
				sname = "closure/options(tdx-only endorsement)"
				serr = verify.SNPValidateFunc(&verify.Options{SNP: &verify.SNPOptions{ExpectedLaunchVMSAs: named}, RootsOfTrust: roots, Now: now, Endorsement: tle})(SnpAttestation(rm, nil), nil)
			default:
				sname = "verify.EndorsementProto(tdx-only endorsement)"
				serr = verify.EndorsementProto(tle, &verify.Options{SNP: &verify.SNPOptions{Measurement: rm, ExpectedLaunchVMSAs: named}, RootsOfTrust: roots, Now: now})
			}
			r.Eval(fmt.Sprintf("%s|named=%d|%v", sname, named, serr == nil), true)
			if serr == nil {
				r.Fail("accept-unendorsed", sname, "%s accepted an SEV-SNP report (named count %d) against an endorsement that has no sev_snp section", sname, named)
			}
		}
		ram := 0
		cfgClass := "none"
		switch r.Intn(3, "named-ram") {
		case 1:
			row := rows[r.Intn(len(rows), "listed-ram")]
			ram, cfgClass = int(row.ram), "listed"
			if ram == 0 {
				cfgClass = "none"
			}
		case 2:
			ram, cfgClass = []int{1, 24, 32, 88, 1000}[r.Intn(5, "unlisted-ram")], "unlisted"
			for _, row := range rows {
				if int(row.ram) == ram {
					cfgClass = "listed"
				}
			}
		}
		var mrtd []byte
		measClass := ""
		switch r.Intn(6, "mrtd-class") {
		case 0, 1:
			row := rows[r.Intn(len(rows), "mrtd-row")]
			mrtd, measClass = row.mrtd, "listed-row"
		case 2:
			mrtd, measClass = otherIs.Golden.Tdx.Measurements[0].Mrtd, "other-image"
		case 3:
			mrtd, measClass = flipBit(rows[r.Intn(len(rows), "nb-row")].mrtd, r.Intn(384, "nb-bit")), "one-bit-neighbour"
		case 4:
			mrtd, measClass = bytes.Repeat([]byte{0}, 48), "all-zero"
		default:
			mrtd, measClass = nil, "dropped-row"
			for _, m := range full.Golden.Tdx.Measurements {
				if any, _ := listedTdx(m.Mrtd, 0); !any {
					mrtd = m.Mrtd
				}
			}
			if mrtd == nil {
				mrtd, measClass = rows[0].mrtd, "listed-row"
			}
		}
		entry := r.Intn(3, "tdx-entry")
		var err error
		name := ""
		var basePol *tcpb.Policy
		overwrite := false
		staleMrtd := bytes.Repeat([]byte{0xEE}, 48)
		if entry != 2 && r.Chance(35, "tdx-base-policy?") {
			basePol = &tcpb.Policy{TdQuoteBodyPolicy: &tcpb.TDQuoteBodyPolicy{}}
			if r.Bool("base-has-any-mrtd") {
				basePol.TdQuoteBodyPolicy.AnyMrTd = [][]byte{staleMrtd}
			}
			overwrite = r.Bool("tdx-overwrite")
			if r.Chance(50, "quote-carries-stale") {
				mrtd, measClass = staleMrtd, "base-policy-stale"
			}
		}
		func() {
			defer func() {
				if p := recover(); p != nil {
					err = fmt.Errorf("panic: %v", p)
					r.Probe("panic-in-entry-point")
				}
			}()
			quote := TdxQuote(mrtd)
			switch entry {
			case 0:
				name = "TdxValidate"
				vo := &gcetcbendorsement.TdxValidateOptions{Endorsement: le, RootsOfTrust: roots, Now: now, ExpectedRAMGiB: ram, BasePolicy: basePol, Overwrite: overwrite}
				if r.Chance(40, "reuse-tdx-options?") {
					// a caller that keeps one options value and sets its exported fields per quote
					if tdxOpts == nil {
						tdxOpts = &gcetcbendorsement.TdxValidateOptions{}
					} else {
						r.Probe("tdx-options-reused")
					}
					tdxOpts.Endorsement, tdxOpts.RootsOfTrust, tdxOpts.Now, tdxOpts.ExpectedRAMGiB, tdxOpts.BasePolicy, tdxOpts.Overwrite = le, roots, now, ram, basePol, overwrite
					vo, name = tdxOpts, "TdxValidate/reused-options"
				}
				err = gcetcbendorsement.TdxValidate(ctx, TdxQuoteRaw(quote), vo)
			case 1:
				name = "TdxPolicy+validate"
				po := &gcetcbendorsement.TdxPolicyOptions{RAMGiB: ram, Base: basePol, Overwrite: overwrite}
				if r.Chance(40, "reuse-tdx-policy-options?") {
					if tdxPolOpts == nil {
						tdxPolOpts = &gcetcbendorsement.TdxPolicyOptions{}
					}
					tdxPolOpts.RAMGiB, tdxPolOpts.Base, tdxPolOpts.Overwrite = ram, basePol, overwrite
					po, name = tdxPolOpts, "TdxPolicy+validate/reused-options"
				}
				pol, perr := gcetcbendorsement.TdxPolicy(ctx, le, po)
				if perr != nil {
					err = perr
					break
				}
				vopts, perr := tdvalidate.PolicyToOptions(pol)
				if perr != nil {
					err = perr
					break
				}
				err = tdvalidate.TdxQuote(quote, vopts)
			default:
				name = "cli/tdx-validate"
				io := newMemIO()
				io.Files["e.binarypb"], io.Files["roots.pem"], io.Files["quote.bin"] = endorsement, pemOf(a.Root), TdxQuoteRaw(quote)
				args := []string{"tdx", "validate", "--root_cert", "roots.pem", "--endorsement", "e.binarypb"}
				if ram != 0 {
					args = append(args, fmt.Sprintf("--ram_gib=%d", ram))
				}
				err = runCLI(&gcmd.Backend{Getter: net, Now: now, IO: io}, append(args, "quote.bin")...)
			}
		}()
		outcome := "reject"
		if err == nil {
			outcome = "accept"
		}
		any, forRam := listedTdx(mrtd, ram)
		okForNamed := any && (ram == 0 || forRam)
		r.Eval(fmt.Sprintf("%s|%s|%s|%s", name, measClass, cfgClass, outcome), !okForNamed || cfgClass == "unlisted")
		r.Eventf("tdx entry=%s mrtd=%s ram=%d(%s) -> %s", name, measClass, ram, cfgClass, outcome)
		if len(samples) < 4 {
			samples = append(samples, fmt.Sprintf("%s mrtd=%s ram=%d(%s) rows=%d -> %s", name, measClass, ram, cfgClass, len(rows), outcome))
		}
		if err == nil {
			r.Probe("accepted:" + name)
			switch {
			case !any:
				r.Fail("accept-unendorsed", name, "%s accepted a quote whose MRTD (%s) is not listed in the endorsement (ram named %d, %d rows)", name, measClass, ram, len(rows))
			case cfgClass == "unlisted":
				r.Fail("accept-unlisted-config", name, "%s accepted although RAM size %d GiB was named and the endorsement lists no row for it", name, ram)
			case !okForNamed:
				r.Fail("accept-wrong-config", name, "%s accepted an MRTD (%s) that is listed, but not for the %d GiB the caller named", name, measClass, ram)
			}
		}
	}
	r.Sample = map[string]any{"tdx": tdxWorld, "calls": samples}
}

func indexOf(pool []*images.Image, im *images.Image) int {
	for i, p := range pool {
		if p == im {
			return i
		}
	}
	return 0
}

func pickDropped(full, kept map[uint32][]byte) uint32 {
	var cs []uint32
	for c := range full {
		if _, ok := kept[c]; !ok {
			cs = append(cs, c)
		}
	}
	sort.Slice(cs, func(i, j int) bool { return cs[i] < cs[j] })
	if len(cs) == 0 {
		return 0
	}
	return cs[0]
}
