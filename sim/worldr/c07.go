package worldr

import (
	"bytes"
	"context"
	"crypto/ecdsa"
	"crypto/ed25519"
	"crypto/elliptic"
	"crypto/rand"
	"crypto/x509"
	"crypto/x509/pkix"
	"encoding/base64"
	"encoding/binary"
	"encoding/hex"
	"fmt"
	"github.com/google/gce-tcb-verifier/sev"
	cpb "github.com/google/go-sev-guest/proto/check"
	tcpb "github.com/google/go-tdx-guest/proto/checkconfig"
	"io"
	"math/big"
	"os"
	"path/filepath"
	"runtime"
	"runtime/debug"
	"strings"
	"time"

	"github.com/google/gce-tcb-verifier/cmd/output"
	"github.com/google/gce-tcb-verifier/eventlog"
	"github.com/google/gce-tcb-verifier/extract"
	exel "github.com/google/gce-tcb-verifier/extract/eventlog"
	"github.com/google/gce-tcb-verifier/extract/extractsev"
	"github.com/google/gce-tcb-verifier/gcetcbendorsement"
	gcmd "github.com/google/gce-tcb-verifier/gcetcbendorsement/cmd"
	epb "github.com/google/gce-tcb-verifier/proto/endorsement"
	"github.com/google/gce-tcb-verifier/verify"
	"github.com/google/go-sev-guest/abi"
	spb "github.com/google/go-sev-guest/proto/sevsnp"
	tpmpb "github.com/google/go-tpm-tools/proto/attest"
	"github.com/google/uuid"
	"google.golang.org/protobuf/proto"
	fmpb "google.golang.org/protobuf/types/known/fieldmaskpb"
	tspb "google.golang.org/protobuf/types/known/timestamppb"

	"verifsim/core"
	"verifsim/images"
	"verifsim/worldp"
	"verifsim/worlds"
)

// c07MaskPaths are the field paths `inspect mask` is asked for: scalars, bytes, messages, map and
// list elements (present or not), several at once.
var c07MaskPaths = [][]string{{"cert"}, {"digest"}, {"timestamp"}, {"sev_snp.measurements"}, {"sev_snp"}, {"tdx"}, {"sev_snp.measurements[2]"}, {"cl_spec", "commit"},
	{"sev_snp.measurements[4294967295]"}, {"sev_snp.measurements[1]", "sev_snp.policy"}, {"tdx.measurements"}, {"tdx.measurements[0]"}, {"tdx.measurements[0].mrtd", "tdx.measurements[7].ram_gib"},
	{"ca_bundle"}, {"sev_snp.svsm_measurement"}, {"digest", "digest"}, {"timestamp.seconds"}, {"no_such_field"}, {"sev_snp.measurements[x]"}, {""}}

// c07PickMask draws the paths of one `inspect mask` request: a third of the time one of the paths that
// print a whole map or message (where everything a sender put into it is walked), a third one of the
// fields that have a renderer of their own, else any.
func c07PickMask(r *core.Run) []string {
	switch r.Intn(3, "mask-kind") {
	case 0:
		return [][]string{{"sev_snp.measurements"}, {"sev_snp"}, {"tdx"}, {"tdx.measurements"}}[r.Intn(4, "broad-mask-path")]
	case 1:
		// fields with a renderer of their own
		return [][]string{{"timestamp"}, {"timestamp", "digest"}, {"cert"}, {"ca_bundle"}}[r.Intn(4, "rendered-mask-path")]
	}
	return c07MaskPaths[r.Intn(len(c07MaskPaths), "mask")]
}

func init() {
	core.Register(&core.Check{
		ID: "C07", World: "R+S (relying party, streams)", Level: "exploration",
		Rule: "one evaluation = one call of a relying-party decoder (verify.Endorsement/EndorsementProto, the SNP validator closure, SevValidate, TdxValidate, SevPolicy, TdxPolicy, Inspect*/Mask, extract.Attestation/Endorsement, extractsev.FromCertTable, CryptoAgileLog.Unmarshal, TCGEventData / SP800155Event3 decoding, exel.Locate, EfiVarFSReader.ReadVariable, the sev validate / extract commands) on a genuine artefact of the simulated world passed through 1-3 byzantine channel operators (bit flips, overwrites, truncation incl. to empty, zero/0xff ranges, duplication, deletion, splicing in bytes of another genuine artefact; positions biased to the first/last 64 bytes where length fields live) and, for streams, a chunked reader; " +
			"each call runs under a monitor: no panic, returns within 5 s, allocates at most 64 MiB + 256 x input size; non-trivial = at least one operator changed the input; distinct by (entry point, operator list, outcome class)",
		Assumptions: []string{
			"corruption model around genuine artefacts, not a coverage-guided fuzzer: inputs needing several coordinated field edits are out of reach",
			"allocation is measured as the runtime's TotalAlloc delta around the call (single goroutine); the wall-clock bound is the one place real time enters an oracle and a trip must reproduce on replay",
		},
		Components: []core.Component{
			{Name: "verify, extract/*, eventlog, gcetcbendorsement (validate, policy, inspect, cmd)", Kind: "real"},
			{Name: "go-sev-guest / go-tdx-guest / protobuf decoders underneath", Kind: "real"},
			{Name: "channel, readers, network, file IO", Kind: "stub"},
		},
		Budget: core.StdBudget(2000, 100*time.Second, 400000, 9*time.Minute),
		Body:   runC07,
	})
}

type monitorResult struct {
	panicked any
	stack    string
	timeout  bool
	alloc    uint64
}

// monitored runs f under the C07 monitor.
func monitored(f func()) monitorResult {
	var res monitorResult
	var m0, m1 runtime.MemStats
	runtime.ReadMemStats(&m0)
	done := make(chan struct{})
	go func() {
		defer close(done)
		defer func() {
			if p := recover(); p != nil {
				res.panicked = p
				res.stack = string(debug.Stack())
			}
		}()
		f()
	}()
	select {
	case <-done:
	case <-time.After(5 * time.Second):
		res.timeout = true
		return res
	}
	runtime.ReadMemStats(&m1)
	res.alloc = m1.TotalAlloc - m0.TotalAlloc
	return res
}

// repoFrame extracts the first stack frame inside the repository for a violation key.
func repoFrame(stack string) string {
	for _, l := range strings.Split(stack, "\n") {
		if strings.HasPrefix(l, "github.com/google/gce-tcb-verifier/") {
			l = strings.TrimPrefix(l, "github.com/google/gce-tcb-verifier/")
			if i := strings.IndexByte(l, '('); i > 0 {
				l = l[:i]
			}
			return l
		}
	}
	return "outside-repo"
}

func corruptN(r *core.Run, b, other []byte, label string) ([]byte, string) {
	n := 1 + r.Intn(3, label+"-ops")
	var ops []string
	out := b
	for i := 0; i < n; i++ {
		var op string
		if r.Chance(12, label+"-splice?") {
			out, op = Splice(r, out, other, label)
		} else {
			out, op = Corrupt(r, out, label)
		}
		ops = append(ops, opClass(op))
	}
	return out, strings.Join(ops, ",")
}

func runC07(r *core.Run) {
	a := NewParty(r, "a", 0)
	small := images.Small()
	var is *Issued
	if r.Chance(20, "tdx-world?") {
		is = a.Endorse(r, worldp.Req{Image: images.Pool()[4], SNP: true, LaunchVmsas: 2, TDX: true})
	} else {
		is = a.Endorse(r, worldp.Req{Image: small[r.Intn(len(small), "image")], SNP: true, LaunchVmsas: 2})
	}
	meas := is.Golden.SevSnp.Measurements[2]
	mrtd := bytes.Repeat([]byte{0x3c}, 48)
	if ms := is.Golden.GetTdx().GetMeasurements(); len(ms) > 0 {
		mrtd = ms[0].Mrtd
	}
	roots := Pool(a.Root)
	now := a.A.Now.Add(time.Hour)
	ctx := output.NewContext(context.Background(), &output.Options{Quiet: true})
	scratch := worldp.Scratch(r)
	efiRoot := filepath.Join(scratch, "efivars")
	os.MkdirAll(efiRoot, 0o755)
	os.WriteFile(filepath.Join(efiRoot, "FirmwareRIM-"+googleGUID), append([]byte{7, 0, 0, 0}, is.Bytes...), 0o644)
	os.WriteFile(filepath.Join(efiRoot, "Short-"+googleGUID), []byte{7, 0}, 0o644)
	reader := exel.MakeEfiVarFSReader(efiRoot) // one long-lived reader for the whole run
	net := NewSimNet(r)
	net.Objects[SnpURL(meas)] = is.Bytes

	// genuine artefacts
	chainE := &spb.CertificateChain{VcekCert: vcek(), Extras: map[string][]byte{"9f4116cd-c503-4f5a-8f6f-fb68882f4ce2": is.Bytes}}
	rawReport, _ := abi.ReportToAbiBytes(SnpReport(meas))
	certTable := abi.CertsFromProto(chainE).Marshal()
	rawCerts := append(append([]byte(nil), rawReport...), certTable...)
	tpmAtt, _ := proto.Marshal(&tpmpb.Attestation{TeeAttestation: &tpmpb.Attestation_SevSnpAttestation{SevSnpAttestation: &spb.Attestation{Report: SnpReport(meas), CertificateChain: chainE}}})
	tdxRaw := TdxQuoteRaw(TdxQuote(mrtd))
	guid := uuid.MustParse(googleGUID)
	rim := uuid.MustParse("11111111-2222-3333-4444-555555555555")
	varLoc := varLocator(guid, ucs2("FirmwareRIM"))
	spEvent := sp155("Google, Inc.", eventlog.RIMLocationVariable, varLoc, rim)
	spBytes, _ := spEvent.MarshalToBytes()
	logBytes := buildLog([]*eventlog.SP800155Event3{spEvent, sp155("Google, Inc.", eventlog.RIMLocationURI, []byte(SnpURL(meas)), rim)})
	attestations := [][]byte{tpmAtt, rawCerts, rawReport, certTable, tdxRaw, []byte(hex.EncodeToString(rawCerts)), []byte(base64.StdEncoding.EncodeToString(rawCerts))}

	nCalls := 4 + r.Intn(8, "calls")
	var samples []string
	for i := 0; i < nCalls; i++ {
		var name, ops string
		var inputLen int
		var call func()
		switch r.Intn(9, "artefact") {
		case 0, 1, 2: // endorsement bytes
			var e []byte
			var o string
			if r.Chance(40, "field-level?") {
				e, o = fieldMutate(r, a, is)
			} else {
				e, o = corruptN(r, is.Bytes, certTable, "endorsement")
			}
			e = r.Blob(fmt.Sprintf("in%d", i), func() []byte { return e })
			ops, inputLen = o, len(e)
			le := &epb.VMLaunchEndorsement{}
			parsed := proto.Unmarshal(e, le) == nil
			k := r.Intn(13, "endorsement-entry")
			if !parsed && k >= 3 && k < 10 {
				// entries 3-9 take a parsed message; 0-2 and the commands (10-12) take the bytes
				k = []int{0, 1, 2, 10, 11, 12}[r.Intn(6, "endorsement-bytes-entry")]
			}
			switch k {
			case 0:
				name, call = "verify.Endorsement", func() { verify.Endorsement(e, &verify.Options{RootsOfTrust: roots, Now: now}) }
			case 1:
				// (one validator for both calls of the entry point: a validator is made to be kept)
				f := verify.SNPValidateFunc(&verify.Options{RootsOfTrust: roots, Now: now})
				name, call = "closure", func() { f(SnpAttestation(meas, nil), e) }
			case 2:
				name, call = "SevValidate/extras", func() {
					gcetcbendorsement.SevValidate(ctx, SnpAttestation(meas, e), &gcetcbendorsement.SevValidateOptions{RootsOfTrust: roots, Now: now})
				}
			case 3:
				name, call = "verify.EndorsementProto", func() { verify.EndorsementProto(le, &verify.Options{RootsOfTrust: roots, Now: now}) }
			case 4:
				name, call = "TdxValidate/given", func() {
					gcetcbendorsement.TdxValidate(ctx, tdxRaw, &gcetcbendorsement.TdxValidateOptions{Endorsement: le, RootsOfTrust: roots, Now: now})
				}
			case 5:
				po := &gcetcbendorsement.SevPolicyOptions{LaunchVmsas: uint32(r.Intn(3, "policy-vmsas")), AllowUnspecifiedVmsas: r.Chance(75, "policy-allow-unspecified"),
					Overwrite: r.Bool("policy-overwrite"), Base: c07SnpBase(r)}
				name, call = "SevPolicy", func() { gcetcbendorsement.SevPolicy(ctx, le, po) }
			case 6:
				po := &gcetcbendorsement.TdxPolicyOptions{RAMGiB: []int{0, 0, 16, 1 << 40}[r.Intn(4, "policy-ram")], Overwrite: r.Bool("policy-overwrite")}
				if r.Chance(40, "tdx-base?") {
					po.Base = &tcpb.Policy{}
					if r.Bool("tdx-base-body") {
						po.Base.TdQuoteBodyPolicy = &tcpb.TDQuoteBodyPolicy{AnyMrTd: [][]byte{bytes.Repeat([]byte{1}, 48)}}
					}
				}
				name, call = "TdxPolicy", func() { gcetcbendorsement.TdxPolicy(ctx, le, po) }
			case 7:
				name, call = "Inspect", func() {
					ictx := gcetcbendorsement.WithInspect(ctx, &gcetcbendorsement.Inspect{Writer: gcetcbendorsement.NonterminalWriter{Writer: io.Discard}, Form: gcetcbendorsement.BytesForm(r.Intn(5, "form"))})
					gcetcbendorsement.InspectPayload(ictx, le)
					gcetcbendorsement.InspectSignature(ictx, le)
				}
			case 8:
				paths := c07PickMask(r)
				name, call = "InspectMask", func() {
					ictx := gcetcbendorsement.WithInspect(ctx, &gcetcbendorsement.Inspect{Writer: gcetcbendorsement.NonterminalWriter{Writer: io.Discard}, Form: gcetcbendorsement.BytesHexGuidify})
					gcetcbendorsement.InspectMask(ictx, le, &fmpb.FieldMask{Paths: paths})
				}
			case 10, 11, 12:
				// the inspect / policy commands of the gcetcbendorsement application read the bytes
				// from a file and write to a destination that may or may not be a terminal
				mio := newMemIO()
				mio.Files["e.binarypb"] = e
				mio.Terminal = r.Bool("terminal-output")
				form := []string{"auto", "bin", "hex", "base64"}[r.Intn(4, "bytesform")]
				var args []string
				switch k {
				case 10:
					switch r.Intn(3, "inspect-cmd") {
					case 0:
						args = []string{"inspect", "signature", "e.binarypb", "--bytesform", form}
					case 1:
						args = []string{"inspect", "payload", "e.binarypb", "--bytesform", form}
					default:
						args = []string{"inspect", "mask", "e.binarypb", "--bytesform", form}
						for _, p := range c07PickMask(r) {
							args = append(args, "--path", p)
						}
					}
				case 11:
					args = []string{"sev", "policy", "e.binarypb", "--outform", append([]string{"textproto"}, form)[r.Intn(2, "outform")],
						fmt.Sprintf("--launch_vmsas=%d", r.Intn(3, "policy-vmsas")), "--allow_unspecified_vmsas"}
				default:
					args = []string{"tdx", "policy", "e.binarypb", "--outform", append([]string{"textproto"}, form)[r.Intn(2, "outform")],
						fmt.Sprintf("--ram_gib=%d", []int{0, 16, 1000}[r.Intn(3, "policy-ram")])}
				}
				name, call = "cli/"+args[0]+"-"+args[1], func() { runCLI(&gcmd.Backend{Getter: net, Now: now, IO: mio}, args...) }
			default:
				vo := &gcetcbendorsement.SevValidateOptions{Endorsement: le, RootsOfTrust: roots, Now: now, BasePolicy: c07SnpBase(r), Overwrite: r.Bool("policy-overwrite"),
					ExpectedLaunchVmsas: uint32(r.Intn(3, "policy-vmsas"))}
				name, call = "SevValidate/given", func() { gcetcbendorsement.SevValidate(ctx, SnpAttestation(meas, nil), vo) }
			}
		case 3, 4: // attestation in some container
			base := attestations[r.Intn(len(attestations), "container")]
			q, o := corruptN(r, base, is.Bytes, "attestation")
			if r.Chance(6, "blank-quote?") {
				// what a text channel delivers when nothing was there: line breaks, blanks, bare padding
				blanks := []string{"\n", "\r\n", " ", "\n\n\n", "\t\n ", "=", "==", "0x", "\x00"}
				q, o = []byte(blanks[r.Intn(len(blanks), "blank-quote")]), "field:blank-quote"
			} else if r.Chance(25, "attestation-field-level?") {
				// a well-formed attestation message whose certificate-chain extras are keyed by whatever
				// the sender liked: other spellings of the GCE GUID, other GUIDs, strings that are no GUID
				at := SnpAttestation(meas, nil)
				at.CertificateChain.Extras = map[string][]byte{}
				keys := []string{sev.GCEFwCertGUID, strings.ToUpper(sev.GCEFwCertGUID), "urn:uuid:" + sev.GCEFwCertGUID, "{" + sev.GCEFwCertGUID + "}", "", "not-a-guid",
					"00000000-0000-0000-0000-000000000000", strings.Repeat("z", 36), sev.GCEFwCertGUID + " "}
				var picked []string
				for j, n := 0, 1+r.Intn(3, "extras"); j < n; j++ {
					k := keys[r.Intn(len(keys), "extras-key")]
					at.CertificateChain.Extras[k] = [][]byte{is.Bytes, nil, []byte("x")}[r.Intn(3, "extras-value")]
					picked = append(picked, fmt.Sprintf("%q", k))
				}
				var raw []byte
				if r.Bool("bare-attestation") {
					raw, _ = proto.Marshal(at)
				} else {
					raw, _ = proto.Marshal(&tpmpb.Attestation{TeeAttestation: &tpmpb.Attestation_SevSnpAttestation{SevSnpAttestation: at}})
				}
				q, o = raw, "field:extras-keys="+strings.Join(picked, "+")
			}
			q = r.Blob(fmt.Sprintf("in%d", i), func() []byte { return q })
			ops, inputLen = o, len(q)
			switch r.Intn(5, "attestation-entry") {
			case 0:
				name, call = "extract.Attestation", func() { extract.Attestation(q) }
			case 1:
				name, call = "extract.Endorsement(quote)", func() {
					extract.Endorsement(&extract.Options{Quote: q, Getter: net, UEFIVariableReader: reader})
				}
			case 2:
				name, call = "TdxValidate(quote)", func() {
					gcetcbendorsement.TdxValidate(ctx, q, &gcetcbendorsement.TdxValidateOptions{Endorsement: is.Proto, RootsOfTrust: roots, Now: now})
				}
			case 3:
				name, call = "cli/sev-validate(attestation)", func() {
					mio := newMemIO()
					mio.Files["att.bin"], mio.Files["roots.pem"] = q, pemOf(a.Root)
					runCLI(&gcmd.Backend{Getter: net, Now: now, IO: mio}, "sev", "validate", "--root_cert", "roots.pem", "att.bin")
				}
			default:
				name, call = "cli/extract(attestation)", func() {
					mio := newMemIO()
					mio.Files["att.bin"] = q
					runCLI(&gcmd.Backend{Getter: net, Now: now, IO: mio, Provider: &simProvider{r: r, fail: true}, MakeEfiVariableReader: func(p string) exel.VariableReader { return exel.MakeEfiVarFSReader(p) }},
						"extract", "--out", "o", "--eventlog", "", "--efivarfs", efiRoot, "att.bin")
				}
			}
		case 5: // certificate table
			t, o := corruptN(r, certTable, is.Bytes, "cert-table")
			if r.Chance(12, "fan-in-table?") {
				// a structurally valid table whose n header entries all name the same data region:
				// every range is inside the table, the total is n times the region
				n := []int{64, 512, 4000}[r.Intn(3, "fan-in-entries")]
				t, o = fanInCertTable(n), fmt.Sprintf("field:cert-table=fan-in-%d", n)
			}
			if len(certTable) >= 24 && r.Chance(12, "wrap-entry?") {
				// one header entry whose offset and length are each far outside the table while their
				// 32-bit sum wraps to a small number
				x := []uint64{1, 16, 4096, 1 << 20, 1 << 31}[r.Intn(5, "wrap-x")]
				small := []uint64{0, 10, uint64(len(certTable) - 1)}[r.Intn(3, "wrap-small")]
				t = append([]byte(nil), certTable...)
				binary.LittleEndian.PutUint32(t[16:], uint32(1<<32-x))
				binary.LittleEndian.PutUint32(t[20:], uint32(x+small))
				o = fmt.Sprintf("field:cert-table=wrap-entry(x=%d,small=%d)", x, small)
			}
			t = r.Blob(fmt.Sprintf("in%d", i), func() []byte { return t })
			ops, inputLen = o, len(t)
			name, call = "extractsev.FromCertTable", func() { extractsev.FromCertTable(t) }
			if r.Bool("table-behind-report") {
				q := append(append([]byte(nil), rawReport...), t...)
				inputLen = len(q)
				name, call = "extract.Attestation(report+table)", func() { extract.Attestation(q) }
			}
		case 6: // event log as a stream and as a file
			l, o := corruptN(r, logBytes, spBytes, "event-log")
			if r.Chance(12, "digest-bank?") {
				// a genuine log followed by an event, written byte by byte, whose digest is tagged with a
				// TPM algorithm id the tools may or may not know (other banks exist: SHA-512, SM3, SHA-3),
				// whole or cut right after the id
				alg := []uint16{0x0004, 0x000B, 0x000C, 0x000D, 0x0012, 0x0027, 0x0028, 0x0029, 0xffff}[r.Intn(9, "digest-alg")]
				size := map[uint16]int{0x0004: 20, 0x000B: 32, 0x000C: 48, 0x000D: 64, 0x0012: 32, 0x0027: 32, 0x0028: 48, 0x0029: 64, 0xffff: 16}[alg]
				rec := []byte{7, 0, 0, 0, 1, 0, 0, 0x80, 1, 0, 0, 0, byte(alg), byte(alg >> 8)}
				if !r.Bool("cut-after-alg-id") {
					rec = append(rec, bytes.Repeat([]byte{0x5c}, size)...)
					rec = append(rec, 4, 0, 0, 0, 'd', 'a', 't', 'a')
				}
				l, o = append(append([]byte(nil), logBytes...), rec...), fmt.Sprintf("field:event-digest-alg=%#04x", alg)
			}
			if r.Chance(15, "signature-only-event?") {
				// a genuine log followed by an event whose data is a well-known TCG event signature
				// and nothing (or next to nothing) else
				sigs := []string{"SP800-155 Event3", "StartupLocality\x00", "Spec ID Event03\x00", "SP800-155 Event\x00", "TCG_EfiSpecIDEven"}
				sig := []byte(sigs[r.Intn(len(sigs), "event-signature")])[:16]
				extra := []byte{0, 0, 0, 0}[:r.Intn(3, "signature-extra")]
				ev := &eventlog.TCGPCREvent2{PCRIndex: 0, EventType: 3, EventData: eventlog.TCGEventData{Event: &eventlog.UnknownEvent{Data: append(append([]byte(nil), sig...), extra...)}}}
				var b bytes.Buffer
				if err := ev.Marshal(&b); err == nil {
					l, o = append(append([]byte(nil), logBytes...), b.Bytes()...), fmt.Sprintf("field:event=%q+%d", sig, len(extra))
				}
			}
			huge := r.Chance(3, "huge-log?")
			if huge {
				// a peer's event log may be large (one measured blob of several MiB), whole or cut
				// short; deterministic content, so the replay file need not carry it
				big := make([]byte, 5<<20)
				for j := range big {
					big[j] = byte(j*31 + j>>11)
				}
				ev := &eventlog.TCGPCREvent2{PCRIndex: 7, EventType: 0x80000001, EventData: eventlog.TCGEventData{Event: &eventlog.UnknownEvent{Data: big}}}
				var b bytes.Buffer
				if err := ev.Marshal(&b); err == nil {
					l, o = append(append([]byte(nil), logBytes...), b.Bytes()...), "field:event=5MiB"
					if r.Bool("huge-log-cut") {
						l, o = l[:len(l)-(1<<19)-r.Intn(4096, "huge-log-cut-at")], "field:event=5MiB,truncate"
					}
				}
			} else {
				l = r.Blob(fmt.Sprintf("in%d", i), func() []byte { return l })
			}
			ops, inputLen = o, len(l)
			if huge || r.Bool("log-via-file") {
				p := filepath.Join(scratch, fmt.Sprintf("log%d", i))
				os.WriteFile(p, l, 0o644)
				eo := &extract.Options{EventLogLocation: p, FirmwareManufacturer: "Google, Inc.", Getter: net, UEFIVariableReader: reader}
				name = "extract.Endorsement(event-log)"
				// a relying party configures only the sources it has: no variable reader, no getter
				if r.Chance(15, "no-variable-reader?") {
					eo.UEFIVariableReader, name = nil, name+"/no-variable-reader"
				}
				if r.Chance(15, "no-getter?") {
					eo.Getter, name = nil, name+"/no-getter"
				}
				call = func() { extract.Endorsement(eo) }
			} else {
				mode := r.Intn(4, "chunk-mode")
				name, call = "CryptoAgileLog.Unmarshal", func() {
					(&eventlog.CryptoAgileLog{}).Unmarshal(worlds.NewSimReader(r, l, mode))
				}
			}
		case 7: // SP800-155 event payload
			p, o := corruptN(r, spBytes[16:], varLoc, "sp800155")
			p = r.Blob(fmt.Sprintf("in%d", i), func() []byte { return p })
			ops, inputLen = o, len(p)
			if r.Bool("via-eventdata") {
				framed := append([]byte{byte(len(p) + 16), byte((len(p) + 16) >> 8), 0, 0}, append(append([]byte(nil), spBytes[:16]...), p...)...)
				if r.Chance(30, "corrupt-size") {
					framed[r.Intn(4, "size-byte")] ^= byte(1 << r.Intn(8, "size-bit"))
					ops += ",size-field"
				}
				name, call = "TCGEventData.Unmarshal", func() { (&eventlog.TCGEventData{}).Unmarshal(bytes.NewReader(framed)) }
			} else {
				name, call = "SP800155Event3.UnmarshalFromBytes", func() { (&eventlog.SP800155Event3{}).UnmarshalFromBytes(p) }
			}
		default: // locators and variable names
			base := varLoc
			if r.Chance(25, "short-variable?") {
				base = varLocator(guid, ucs2("Short"))
			}
			loc, o := corruptN(r, base, []byte(SnpURL(meas)), "locator")
			if r.Chance(30, "locator-intact?") {
				loc, o = base, "intact"
			} else if r.Chance(25, "locator-cut?") {
				// cut at a boundary of the locator's layout: inside the GUID, exactly after it (an empty
				// name), after one UCS-2 unit, before the terminator
				k := []int{0, 1, 15, 16, 17, 18, 19, len(base) - 2, len(base) - 1}[r.Intn(9, "locator-cut-at")]
				if k >= 0 && k <= len(base) {
					loc, o = append([]byte(nil), base[:k]...), fmt.Sprintf("field:locator-cut@%d", k)
				}
			}
			loc = r.Blob(fmt.Sprintf("in%d", i), func() []byte { return loc })
			ops, inputLen = o, len(loc)
			if r.Bool("read-variable") {
				name, call = "EfiVarFSReader.ReadVariable", func() { reader.ReadVariable(guid, loc) }
			} else {
				typ := uint32(r.Intn(5, "locator-type"))
				lo := &exel.LocateOptions{Getter: net, UEFIVariableReader: reader}
				name = "exel.Locate"
				if r.Chance(15, "no-variable-reader?") {
					lo.UEFIVariableReader, name = nil, name+"/no-variable-reader"
				}
				if r.Chance(15, "no-getter?") {
					lo.Getter, name = nil, name+"/no-getter"
				}
				call = func() { exel.Locate(typ, loc, lo) }
			}
		}
		// every entry point is called twice in a row on the same objects: the second call must be as
		// total as the first (readers, options and validators may be long-lived)
		once := call
		res := monitored(func() { once(); once() })
		r.Faults["corrupt"]++
		outcome := "returned"
		switch {
		case res.panicked != nil:
			outcome = "panic"
		case res.timeout:
			outcome = "timeout"
		}
		r.Eval(fmt.Sprintf("%s|%s|%s", name, ops, outcome), true)
		r.Eventf("call %s ops=%s input=%dB -> %s", name, ops, inputLen, outcome)
		if len(samples) < 5 {
			samples = append(samples, fmt.Sprintf("%s <- %s (%d bytes) -> %s, %d KiB allocated", name, ops, inputLen, outcome, res.alloc>>10))
		}
		switch {
		case res.panicked != nil:
			r.Fail("panic", name+"@"+repoFrame(res.stack), "%s panicked on a %d-byte input (%s): %v\n%s", name, inputLen, ops, res.panicked, core.Short(res.stack, 900))
		case res.timeout:
			r.Fail("timeout", name, "%s did not return within 5 s on a %d-byte input (%s)", name, inputLen, ops)
		case res.alloc > 64<<20+256*uint64(inputLen):
			r.Fail("alloc-blowup", name, "%s allocated %d MiB for a %d-byte input (%s)", name, res.alloc>>20, inputLen, ops)
		}
	}
	r.Sample = map[string]any{"calls": samples}
}

// fieldMutate edits one or two fields of the golden measurement to boundary values (empty, short,
// over-long, extreme numbers) and re-assembles the endorsement, either keeping the now invalid
// signature or re-signing with the genuine key so the code behind the signature check is reached.
// c07SnpBase draws the base policy a caller brings along: none, an empty one, one without the
// guest-policy word, a complete one.
func c07SnpBase(r *core.Run) *cpb.Policy {
	switch r.Intn(5, "snp-base-policy") {
	case 1:
		return &cpb.Policy{}
	case 2:
		return &cpb.Policy{MinimumVersion: "0.0", MinimumGuestSvn: 1}
	case 3:
		return &cpb.Policy{MinimumVersion: "0.0", Policy: ProdPolicy, Measurement: bytes.Repeat([]byte{0xEE}, 48), FamilyId: bytes.Repeat([]byte{1}, 16)}
	}
	return nil
}

func fieldMutate(r *core.Run, a *Party, is *Issued) ([]byte, string) {
	g := proto.Clone(is.Golden).(*epb.VMGoldenMeasurement)
	var ops []string
	short := func(label string) []byte {
		n := []int{0, 1, 2, 3, 4, 5, 19, 21, 47, 49, 64}[r.Intn(11, label+"-len")]
		return bytes.Repeat([]byte{byte(r.Intn(256, label+"-byte"))}, n)
	}
	for i, n := 0, 1+r.Intn(2, "fields"); i < n; i++ {
		switch f := r.Intn(13, "field"); f {
		case 12:
			// a certificate the right root really issued, for a key that is not RSA
			var pub any
			if r.Bool("ed25519") {
				p, _, _ := ed25519.GenerateKey(core.NewDetReader(3))
				pub = p
			} else {
				k, _ := ecdsa.GenerateKey(elliptic.P256(), rand.Reader)
				pub = &k.PublicKey
			}
			t := &x509.Certificate{SerialNumber: big.NewInt(91), Subject: pkix.Name{CommonName: "non-rsa-signer"}, NotBefore: is.Cert.NotBefore, NotAfter: is.Cert.NotAfter,
				KeyUsage: x509.KeyUsageDigitalSignature, SignatureAlgorithm: x509.SHA256WithRSAPSS, BasicConstraintsValid: true}
			if der, err := x509.CreateCertificate(rand.Reader, t, a.Root, pub, a.RootKey); err == nil {
				g.Cert = der
			}
			ops = append(ops, "field:cert=non-rsa-key-issued-by-root")
		case 0:
			g.ClSpec, g.Commit = 0, short("commit")
			ops = append(ops, fmt.Sprintf("field:commit[%d]", len(g.Commit)))
		case 1:
			g.Timestamp = nil
			ops = append(ops, "field:timestamp=nil")
		case 2:
			g.Timestamp = &tspb.Timestamp{Seconds: []int64{-1 << 62, 1 << 62, 0, 253402300800}[r.Intn(4, "ts")], Nanos: []int32{0, -1, 1 << 30}[r.Intn(3, "ns")]}
			ops = append(ops, "field:timestamp=extreme")
		case 3:
			g.Cert = short("cert")
			ops = append(ops, fmt.Sprintf("field:cert[%d]", len(g.Cert)))
		case 4:
			g.Digest = short("digest")
			ops = append(ops, fmt.Sprintf("field:digest[%d]", len(g.Digest)))
		case 5:
			if g.SevSnp == nil {
				g.SevSnp = &epb.VMSevSnp{}
			}
			if g.SevSnp.Measurements == nil {
				g.SevSnp.Measurements = map[uint32][]byte{}
			}
			g.SevSnp.Measurements[[]uint32{0, 1, 2, 1 << 31, 0xffffffff}[r.Intn(5, "count-key")]] = short("measurement")
			ops = append(ops, "field:measurement-entry")
		case 6:
			if g.SevSnp != nil {
				g.SevSnp.Measurements = nil
			}
			ops = append(ops, "field:measurements=nil")
		case 7:
			if g.SevSnp != nil {
				pemRoot := pemOf(a.Root)
				many := func(n int) []byte { return bytes.Repeat(pemRoot, n) }
				g.SevSnp.CaBundle = [][]byte{nil, []byte("-----BEGIN CERTIFICATE-----\n"), []byte("-----BEGIN X-----\nAAAA\n-----END X-----\n"), short("bundle"),
					many(1), many(2), many(3), many(5), append(many(2), []byte("trailing garbage")...)}[r.Intn(9, "bundle")]
				g.SevSnp.SvsmMeasurement = short("svsm")
			}
			ops = append(ops, "field:ca_bundle/svsm")
		case 8:
			g.CaBundle = short("ca-bundle")
			ops = append(ops, "field:ca_bundle")
		case 9:
			g.Tdx = &epb.VMTdx{Measurements: []*epb.VMTdx_Measurement{nil, {RamGib: 0xffffffff, Mrtd: short("mrtd")}, {}}}
			ops = append(ops, "field:tdx-rows")
		case 10:
			g.SevSnp = nil
			ops = append(ops, "field:sev_snp=nil")
		default:
			if g.SevSnp != nil {
				g.SevSnp.Policy = []uint64{0, 1 << 63, 0xffffffffffffffff}[r.Intn(3, "policy")]
				g.SevSnp.FamilyId, g.SevSnp.ImageId = short("family"), short("image")
			}
			ops = append(ops, "field:policy/ids")
		}
	}
	payload, err := proto.Marshal(g)
	if err != nil {
		return is.Bytes, "field:unmarshalable"
	}
	sig := is.Proto.Signature
	if r.Bool("re-sign") {
		sig = Sign(a.Current().Key, payload, 0)
		ops = append(ops, "re-signed")
	}
	out, _ := proto.Marshal(&epb.VMLaunchEndorsement{SerializedUefiGolden: payload, Signature: sig})
	return out, strings.Join(ops, ",")
}

// fanInCertTable builds a certificate table with n entries (distinct GUIDs) that all point at
// one data region as large as the header.
func fanInCertTable(n int) []byte {
	hdr := (n + 1) * 24
	region := n * 24
	t := make([]byte, hdr+region)
	for i := 0; i < n; i++ {
		e := t[i*24:]
		e[0], e[1], e[2] = byte(i+1), byte((i+1)>>8), 1
		binary.LittleEndian.PutUint32(e[16:], uint32(hdr))
		binary.LittleEndian.PutUint32(e[20:], uint32(region))
	}
	return t
}
