package worldr

import (
	"bytes"
	"context"
	"crypto/x509"
	"fmt"
	"github.com/google/gce-tcb-verifier/extract/extractsev"
	"runtime"
	"strings"
	"sync"
	"time"

	"github.com/google/gce-tcb-verifier/cmd/output"
	"github.com/google/gce-tcb-verifier/gcetcbendorsement"
	epb "github.com/google/gce-tcb-verifier/proto/endorsement"
	"github.com/google/gce-tcb-verifier/verify"
	cpb "github.com/google/go-sev-guest/proto/check"
	spb "github.com/google/go-sev-guest/proto/sevsnp"
	"google.golang.org/protobuf/proto"

	"verifsim/core"
	"verifsim/images"
	"verifsim/worldp"
)

func init() {
	core.Register(&core.Check{
		ID: "C09", World: "R (relying party)", Level: "exploration",
		Rule: "one evaluation = one seeded schedule of 2-4 tasks that share one validator closure (SNPValidateFunc / SNPFamilyValidateFunc), one verify.Options value across closures, or one SevValidateOptions value, each validating its own attestation (endorsed measurement, un-endorsed measurement, measurement of another VMSA count) with its own blob source (certificate table, getter, options), some callers with a clock past the certificate's validity, sometimes during a transient network outage (the call whose own fetch fails may fail, nobody else); " +
			"tasks are real goroutines of which exactly one is runnable (a task found blocked in a lock, sync.Once or channel whose holder is parked is set aside until the holder has moved on): they park at yield points (the network getter, the certificate-pool constraint callback inside CheckCertificate and, in the instrumented worker, before EVERY statement of verify.go / sevvalidate.go / sevpolicy.go / tdxvalidate.go / tdxpolicy.go) and the seeded scheduler picks who resumes (uniform, switch-with-probability p, or PCT-style priorities with up to 3 priority-change points); " +
			"oracle: every call's result equals the result of the same call alone on a fresh identically configured options value; an un-endorsed report is rejected; later isolated calls through the shared value (an un-endorsed report, an endorsed report fetched over the healed network, a forged blob) behave like fresh ones; calls never deadlock each other; non-trivial = at least one context switch while two calls are in flight; distinct by schedule signature",
		Assumptions: []string{
			"the race detector pass is not part of this check: the deciding evidence is the seeded schedule exploration over inserted yield points",
			"results are compared as accept / reject (error texts may legitimately embed per-call data)",
		},
		Components: []core.Component{
			{Name: "verify.SNPValidateFunc/SNPFamilyValidateFunc/EndorsementProto/SNP/CheckCertificate, gcetcbendorsement.SevValidate/SevPolicy", Kind: "real", Note: "compiled from a scratch copy of /repo with yield calls inserted by tools/yieldins"},
			{Name: "go-sev-guest validate", Kind: "real"},
			{Name: "scheduler, network getter", Kind: "stub", Note: "cooperative scheduler: one runnable goroutine, seeded picks"},
		},
		Budget: core.StdBudget(3000, 100*time.Second, 600000, 9*time.Minute),
		Body:   runC09,
	})
}

// sched is the cooperative scheduler: real goroutines, exactly one runnable.
type sched struct {
	r        *core.Run
	tasks    []*stask
	current  *stask
	back     chan int // a task parked at a yield point, or finished: its id
	picks    []byte
	switches int
	maxSteps int
	switchP  int // 0: uniform pick; else probability (percent) of leaving the running task at a yield
	// gather: run whoever has not reached the getter yet, so that as many downloads as there are
	// callers are in flight at the same moment; only then does any of them proceed
	gather bool
	last     int
	// PCT-style strategy (when prio != nil): run the runnable task of highest priority; at each of
	// a few drawn step numbers the running task's priority drops below everyone else's.
	prio    []int
	changes map[int]bool
	step    int
	// lock handling
	nblocked  int // failed TryLock of an instrumented Lock statement
	nwaiting  int // a task found blocked for real in a primitive the scheduler does not own
	anyWaiter bool
	stall     int
	deadlock  bool
	stuck     bool
	mu        sync.Mutex // guards tasks against registrations of helper goroutines
	accepting bool       // helper goroutines may register (while run is scheduling)
	naux      int
}

type stask struct {
	id      int
	gid     string // runtime goroutine id, for the "is it blocked for real" look at its stack
	resume  chan struct{}
	done    bool
	blocked bool // came back from a failed TryLock: not to be resumed before someone else has run
	// waiting: found blocked for real (sync.Once, a mutex of uninstrumented code, a channel) while
	// the holder is parked. It is not parked on resume; it will report through back when it gets
	// to its next yield point after the holder has moved on.
	waiting  bool
	netFault bool // its own fetch hit the transient outage: its failure is legitimate
	// aux: a helper goroutine started by the code under test (a download with a deadline, say) that
	// reached a yield point: it is scheduled like a task and is over when its goroutine is gone
	aux    bool
	steps  int
	fn     func()
	panicV any
	site   string // the site of the yield it is parked at
}

// self returns the task of the calling goroutine, or nil for a goroutine that is no task.
func (s *sched) self() *stask {
	// (always by goroutine id: code under test may start helper goroutines of its own — a download
	// with a deadline, say — which reach yield points too; they are nobody's task and run free)
	g := goid()
	s.mu.Lock()
	defer s.mu.Unlock()
	for _, t := range s.tasks {
		if t.gid == g {
			return t
		}
	}
	if !s.accepting || s.maxSteps == 0 {
		return nil
	}
	// a helper goroutine of the code under test: from now on the scheduler decides when it moves
	// (registered as "waiting": not schedulable before the scheduler has heard from it, i.e. before
	// it is really parked at this first yield point)
	t := &stask{id: len(s.tasks), gid: g, resume: make(chan struct{}), aux: true, waiting: true}
	s.tasks = append(s.tasks, t)
	if s.prio != nil {
		lowest := 0
		for _, p := range s.prio {
			if p < lowest {
				lowest = p
			}
		}
		s.prio = append(s.prio, lowest-1)
	}
	s.naux++
	return t
}

func goid() string {
	var buf [64]byte
	n := runtime.Stack(buf[:], false)
	f := strings.Fields(string(buf[:n])) // "goroutine 123 [running]:"
	if len(f) >= 2 {
		return f[1]
	}
	return ""
}

func (s *sched) yield(site string) {
	t := s.self()
	if t == nil {
		return // not inside a scheduled phase
	}
	t.steps++
	t.site = site
	if t.steps > s.maxSteps && !t.waiting {
		if t.aux {
			t.done = true // a helper that runs free from here on is nothing to schedule any more
		}
		return
	}
	s.back <- t.id
	<-t.resume
}

// notAt returns the tasks that are not parked at the given yield site.
func notAt(ts []*stask, site string) []*stask {
	var out []*stask
	for _, t := range ts {
		if t.site != site {
			out = append(out, t)
		}
	}
	return out
}

// blocked is the yield of a task whose TryLock failed (instrumented worker): the task parks
// whatever its step count and is not picked again until another task has made a step.
func (s *sched) blocked(site string) {
	t := s.self()
	if t == nil {
		runtime.Gosched()
		return
	}
	t.blocked = true
	s.nblocked++
	s.back <- t.id
	<-t.resume
}

// blockedForReal looks at the goroutine's stack: is it parked in a synchronisation primitive that
// is not one of the scheduler's own channels? With every other task parked that state is stable
// and a function of the schedule, not of timing.
func blockedForReal(t *stask) bool {
	buf := make([]byte, 1<<18)
	n := runtime.Stack(buf, true)
	for _, g := range strings.Split(string(buf[:n]), "\n\n") {
		head, _, _ := strings.Cut(g, "\n")
		if !strings.HasPrefix(head, "goroutine "+t.gid+" [") {
			continue
		}
		state := head[strings.IndexByte(head, '[')+1:]
		wait := false
		for _, w := range []string{"sync.Mutex.Lock", "sync.RWMutex", "semacquire", "sync.Cond.Wait", "sync.WaitGroup.Wait", "chan receive", "chan send", "select"} {
			if strings.HasPrefix(state, w) {
				wait = true
			}
		}
		if !wait {
			return false
		}
		// the scheduler's own hand-over channels are not "blocked": look at the first frame
		// outside the runtime and the sync package
		for i, line := range strings.Split(g, "\n") {
			if i == 0 || strings.HasPrefix(line, "\t") || strings.HasPrefix(line, "runtime.") || strings.HasPrefix(line, "sync.") ||
				strings.HasPrefix(line, "internal/") || strings.HasPrefix(line, "sync/") {
				continue
			}
			return !strings.HasPrefix(line, "verifsim/worldr.(*sched).")
		}
		return false
	}
	return false
}

// snap returns the task list as it is now (helper goroutines may register concurrently).
func (s *sched) snap() []*stask {
	s.mu.Lock()
	defer s.mu.Unlock()
	return append([]*stask(nil), s.tasks...)
}

func (s *sched) task(id int) *stask {
	s.mu.Lock()
	defer s.mu.Unlock()
	return s.tasks[id]
}

// goroutineGone reports whether the task's goroutine no longer exists (a helper goroutine of the
// code under test that has returned).
func goroutineGone(t *stask) bool {
	buf := make([]byte, 1<<18)
	n := runtime.Stack(buf, true)
	return !strings.Contains(string(buf[:n]), "goroutine "+t.gid+" [")
}

// await waits until task pick parks (or finishes). Reports of woken waiters that reach a yield
// point meanwhile are absorbed. It returns false if pick was found blocked for real.
func (s *sched) await(pick *stask) bool {
	poll := 2 * time.Millisecond
	waited := time.Duration(0)
	timer := time.NewTimer(poll)
	defer timer.Stop()
	for {
		select {
		case id := <-s.back:
			if id == pick.id {
				return true
			}
			s.task(id).waiting = false // parked at a yield point now (or done): an ordinary task again
		case <-timer.C:
			waited += poll
			if pick.aux && goroutineGone(pick) {
				pick.done = true
				return true
			}
			if blockedForReal(pick) {
				pick.waiting, s.anyWaiter = true, true
				s.nwaiting++
				return false
			}
			if waited > stuckAfter {
				s.stuck = true
				return false
			}
			if poll < 200*time.Millisecond {
				poll *= 2
			}
			timer.Reset(poll)
		}
	}
}

func (s *sched) run(fns []func()) {
	s.back = make(chan int)
	for i, f := range fns {
		t := &stask{id: i, resume: make(chan struct{}), fn: f}
		s.mu.Lock()
		s.tasks = append(s.tasks, t)
		s.mu.Unlock()
		started := make(chan struct{})
		go func(t *stask) {
			t.gid = goid()
			close(started)
			<-t.resume
			defer func() {
				if p := recover(); p != nil {
					t.panicV = p
				}
				t.done = true
				s.back <- t.id
			}()
			t.fn()
		}(t)
		<-started
	}
	s.last = -1
	s.mu.Lock()
	s.accepting = true
	s.mu.Unlock()
	defer func() {
		s.mu.Lock()
		s.accepting = false
		s.mu.Unlock()
	}()
	for {
		var runnable []*stask
		alive, waiters := 0, 0
		for _, t := range s.snap() {
			if !t.done {
				alive++
				if t.waiting {
					waiters++
				} else if !t.blocked {
					runnable = append(runnable, t)
				}
			}
		}
		if alive == 0 {
			break
		}
		if len(runnable) == 0 && waiters < alive {
			// everyone who can be resumed waits for a lock: let them all retry; if a whole round of
			// retries makes no progress the calls have deadlocked each other
			s.stall++
			if s.stall > 2 {
				s.deadlock = true
				break
			}
			for _, t := range s.snap() {
				if !t.done && !t.waiting {
					t.blocked = false
					runnable = append(runnable, t)
				}
			}
		}
		if len(runnable) == 0 {
			// only tasks blocked for real are left: either the holder has just moved on and they
			// are on their way to a yield point, or they wait for each other
			if !s.absorbWaiter() {
				s.deadlock = true
				break
			}
			continue
		}
		var pick *stask
		s.step++
		if s.prio != nil {
			if s.changes[s.step] && s.last >= 0 {
				lowest := 0
				for _, p := range s.prio {
					if p < lowest {
						lowest = p
					}
				}
				s.prio[s.last] = lowest - 1
			}
			for _, t := range runnable {
				if pick == nil || s.prio[t.id] > s.prio[pick.id] {
					pick = t
				}
			}
		} else if early := notAt(runnable, "net.Get"); s.gather && len(early) > 0 {
			pick = early[s.r.Intn(len(early), "pick-not-yet-downloading")]
		} else if lt := s.lastTask(); s.switchP > 0 && lt != nil && !lt.done && !lt.blocked && !lt.waiting && !s.r.Chance(s.switchP, "switch?") {
			pick = lt
		} else {
			pick = runnable[s.r.Intn(len(runnable), "pick")]
		}
		if s.last >= 0 && pick.id != s.last && !s.task(s.last).done {
			s.switches++
		}
		s.last = pick.id
		if len(s.picks) < 4096 {
			s.picks = append(s.picks, byte('A'+pick.id))
		}
		s.current = pick
		pick.resume <- struct{}{}
		if !s.await(pick) {
			if s.stuck {
				s.current = nil
				return
			}
			continue // pick is blocked for real: somebody else has to move
		}
		if !pick.blocked {
			// progress: everybody who waited for a lock may try again
			s.stall = 0
			for _, t := range s.snap() {
				t.blocked = false
			}
		}
	}
	s.current = nil
}

func (s *sched) lastTask() *stask {
	if s.last < 0 {
		return nil
	}
	return s.task(s.last)
}

// absorbWaiter waits for one task that was blocked for real to reach a yield point. False: all of
// them are still blocked with nobody left to release them.
func (s *sched) absorbWaiter() bool {
	for tries := 0; tries < 200; tries++ {
		select {
		case id := <-s.back:
			s.task(id).waiting = false
			return true
		case <-time.After(5 * time.Millisecond):
			all := true
			for _, t := range s.snap() {
				if !t.done && t.waiting && !blockedForReal(t) {
					all = false
				}
			}
			if all && tries >= 2 {
				return false
			}
		}
	}
	return false
}

const stuckAfter = 60 * time.Second

// c09OtherFamily is a firmware family id other than GCE's.
const c09OtherFamily = "11111111-2222-3333-4444-555555555555"

type c09Task struct {
	measClass string
	meas      []byte
	source    int // 0 cert table, 1 getter, 2 options
	// blob is the endorsement this task's attestation carries in its certificate table (shape 2):
	// the genuine one, another image's genuine one, or one with a broken signature
	blob      []byte
	blobClass string
	// expired: this caller's clock (its own copy of the options) is past the signing certificate's
	// validity; it shares the root pool object with the other callers
	expired bool
	// otherFamily: this caller validates through a validator of another firmware family built
	// from the same options value
	otherFamily bool
	want        bool
	got         error
}

// c09WallClock, set by the test-binary build of the C09 worker, runs the unset-Now scenario under a
// virtual wall clock.
var c09WallClock func(r *core.Run, is *Issued, a *Party)

func runC09(r *core.Run) {
	a := NewParty(r, "a", 0)
	small := images.Small()
	// two firmwares, released a day and a half apart; which of them is the newer one is drawn
	img1 := small[r.Intn(len(small), "image")]
	img2 := small[(r.Intn(len(small)-1, "other")+1)%len(small)]
	if img2 == img1 {
		img2 = small[(indexOf(small, img1)+1)%len(small)]
	}
	var is, otherIs *Issued
	if r.Bool("other-firmware-is-newer") {
		is = a.Endorse(r, worldp.Req{Image: img1, SNP: true})
		a.A.Now = a.A.Now.Add(36 * time.Hour)
		otherIs = a.Endorse(r, worldp.Req{Image: img2, SNP: true})
	} else {
		otherIs = a.Endorse(r, worldp.Req{Image: img2, SNP: true})
		a.A.Now = a.A.Now.Add(36 * time.Hour)
		is = a.Endorse(r, worldp.Req{Image: img1, SNP: true})
	}
	if c09WallClock != nil && r.Chance(8, "wall-clock-scenario?") {
		c09WallClock(r, is, a)
	}
	now := a.A.Now.Add(time.Hour)
	net := NewSimNet(nil)
	net.Publish(is, is.Bytes)
	// an un-endorsed measurement still needs something in the bucket for the getter path
	for _, m := range otherIs.Golden.SevSnp.Measurements {
		net.Objects[SnpURL(m)] = is.Bytes
		net.Objects[verify.GCETcbURL(extractsev.GCETcbObjectName(c09OtherFamily, m))] = is.Bytes
	}
	// (nothing is published under the other family for the endorsed image: that family's bucket
	// does not know it, so which family a validator asks for decides its verdict)
	s := &sched{r: r, maxSteps: 400}
	pct := false
	switch r.Intn(7, "strategy") {
	case 4, 5:
		pct = true
	case 6:
		s.gather = true
	case 0:
		s.switchP = 0
	case 1:
		s.switchP = 5
	case 2:
		s.switchP = 20
	default:
		s.switchP = 60
	}
	net.Yield = s.yield
	// the relying party also trusts the root of another authority, one that issues through
	// intermediate CAs (the genuine root's path length is zero)
	root2Key := AttackerKey(a, 3)
	root2 := OtherRoot(a.Root, root2Key)
	mkPool := func() *x509.CertPool {
		p := x509.NewCertPool()
		p.AddCertWithConstraint(a.Root, func([]*x509.Certificate) error {
			s.yield("certpool-constraint")
			return nil
		})
		p.AddCert(root2)
		return p
	}
	ctx := output.NewContext(context.Background(), &output.Options{Quiet: true})
	shape := r.Intn(4, "shared") // 0 one closure, 1 one options value / closure per task, 2 one SevValidateOptions, 3 one closure created with SNP == nil
	named := uint32(0)
	if r.Chance(30, "named-count?") {
		named = []uint32{2, 4, 8}[r.Intn(3, "named")]
	}
	nTasks := 2 + r.Intn(3, "tasks")
	if s.gather {
		nTasks = 5 + r.Intn(3, "many-tasks") // a fleet's worth of guests validated at once
	}
	if pct {
		// random distinct priorities and d <= 3 priority change points among the first ~300 steps
		s.prio = make([]int, nTasks)
		for i := range s.prio {
			s.prio[i] = i
		}
		for i := nTasks - 1; i > 0; i-- {
			j := r.Intn(i+1, "prio-shuffle")
			s.prio[i], s.prio[j] = s.prio[j], s.prio[i]
		}
		s.changes = map[int]bool{}
		for i, d := 0, 1+r.Intn(3, "pct-depth"); i < d; i++ {
			s.changes[1+r.Intn(300, "pct-change-at")] = true
		}
	}
	// (shape 2) the bucket may also hold the OTHER firmware's own endorsement under its measurements:
	// a report of that firmware fetched from the bucket is then endorsed by its own object
	ownBucket := shape == 2 && r.Bool("other-image-has-its-own-bucket-object")
	if ownBucket {
		for _, m := range otherIs.Golden.SevSnp.Measurements {
			net.Objects[SnpURL(m)] = otherIs.Bytes
		}
	}
	tasks := make([]*c09Task, nTasks)
	for i := range tasks {
		t := &c09Task{source: r.Intn(3, "source")}
		if s.gather && r.Chance(85, "download-path") {
			t.source = 1
		}
		if shape == 2 {
			t.source = r.Intn(2, "source") // extras or bucket
		}
		switch r.Intn(3, "meas") {
		case 0:
			c := named
			if c == 0 {
				c = []uint32{2, 4, 8, 16}[r.Intn(4, "count")]
			}
			t.meas, t.measClass = is.Golden.SevSnp.Measurements[c], "endorsed"
		case 1:
			t.meas, t.measClass = otherIs.Golden.SevSnp.Measurements[[]uint32{2, 2, 4, 8}[r.Intn(4, "other-count")]], "unendorsed"
		default:
			c := []uint32{16, 24, 32}[r.Intn(3, "else-count")]
			t.meas, t.measClass = is.Golden.SevSnp.Measurements[c], "endorsed-other-count"
		}
		if ownBucket && t.source == 1 && t.measClass == "unendorsed" {
			t.measClass = "endorsed-by-own-bucket-object"
			if named != 0 {
				t.meas = otherIs.Golden.SevSnp.Measurements[named]
			}
		}
		t.blob, t.blobClass = is.Bytes, "genuine"
		// a task that follows one whose endorsement names an intermediate CA is, half of the time,
		// the same signer's endorsement without that hint
		pairBare := i > 0 && tasks[i-1].blobClass == "via-intermediate+bundle" && r.Bool("pair-with-bare-endorsement")
		if pairBare {
			t.source = 0
		}
		if t.source == 0 {
			// the attestation's certificate table carries this task's own endorsement blob
			kind := r.Intn(6, "blob")
			if pairBare {
				kind = 5
			}
			switch kind {
			case 4, 5:
				// the right measurements, signed by a key the second trusted root certified through
				// an intermediate CA; the endorsement's CA bundle names the intermediate (4) or only
				// the root (5). What one call is shown says nothing about another call's chain.
				ik, sk := AttackerKey(a, 1), AttackerKey(a, 2)
				inter := IntermediateCA(root2, root2Key, ik)
				g2 := proto.Clone(is.Golden).(*epb.VMGoldenMeasurement)
				g2.CaBundle = pemOf(root2)
				t.blobClass = "via-intermediate-bare"
				if t.measClass != "endorsed" {
					c := named
					if c == 0 {
						c = 2
					}
					t.meas, t.measClass = is.Golden.SevSnp.Measurements[c], "endorsed"
				}
				if kind == 4 {
					g2.CaBundle, t.blobClass = pemOf(inter, root2), "via-intermediate+bundle"
				}
				t.blob = Reassemble(g2, ForgeCert(sk, inter, ik, is.Cert.NotBefore, is.Cert.NotAfter, 78), sk, 0)
			case 1:
				// another firmware with its own genuine endorsement: accepted in isolation
				t.blob, t.blobClass = otherIs.Bytes, "other-genuine"
				t.meas, t.measClass = otherIs.Golden.SevSnp.Measurements[[]uint32{2, 4, 8}[r.Intn(3, "other-blob-count")]], "endorsed-by-own-blob"
				if named != 0 {
					t.meas = otherIs.Golden.SevSnp.Measurements[named]
				}
			case 2:
				// the right endorsement with a broken signature: rejected in isolation
				t.blob, t.blobClass = Reassemble(is.Golden, nil, AttackerKey(a, 0), 0), "bad-signature"
			}
		}
		if shape == 0 && t.source == 1 && r.Chance(35, "other-family?") {
			t.otherFamily = true
			t.measClass += "+other-family"
		}
		if shape != 2 && t.source == 2 && r.Chance(25, "expired-clock?") {
			t.expired = true
			t.measClass += "+expired-clock"
		}
		tasks[i] = t
	}
	measBuf := r.Chance(30, "options-carry-a-measurement?")
	measEndorsed := measBuf && r.Bool("the-carried-measurement-is-endorsed?")
	newOpts := func() *verify.Options {
		o := &verify.Options{RootsOfTrust: mkPool(), Now: now, Getter: net}
		if shape != 3 {
			o.SNP = &verify.SNPOptions{ExpectedLaunchVMSAs: named}
			if measBuf {
				// the caller's options carry a measurement of their own (a validator takes each
				// report's measurement instead): a slice with room for 48 bytes, which stays the caller's
				o.SNP.Measurement = append(make([]byte, 0, 64), bytes.Repeat([]byte{0xEE}, 48)...)
				if measEndorsed {
					// ... left over from a verify.Endorsement call on the same value: an endorsed
					// measurement, which must not vouch for the reports of other calls
					pinned := is.Golden.SevSnp.Measurements[2]
					if named != 0 {
						pinned = is.Golden.SevSnp.Measurements[named]
					}
					o.SNP.Measurement = append(make([]byte, 0, 64), pinned...)
				}
			}
		}
		return o
	}
	withBase := r.Bool("base-policy?")
	newSevOpts := func() *gcetcbendorsement.SevValidateOptions {
		o := &gcetcbendorsement.SevValidateOptions{RootsOfTrust: mkPool(), Now: now, Getter: net, ExpectedLaunchVmsas: named}
		if withBase {
			// a caller-owned base policy, one object per options value
			o.BasePolicy = &cpb.Policy{MinimumVersion: "0.0", Policy: ProdPolicy}
		}
		return o
	}
	// the VCEK chain is per machine: a verifier may hold ONE certificate-chain message and attach it
	// to every report of that host (drawn per run); validating must not write into it
	hostChainInUse := false // the isolation baseline gives every call a chain message of its own
	var hostChain *spb.CertificateChain
	if r.Bool("shared-certificate-chain") {
		hostChain = SnpAttestation(nil, nil).CertificateChain
	}
	call := func(t *c09Task, f func(*spb.Attestation, []byte) error, o *verify.Options, so *gcetcbendorsement.SevValidateOptions) error {
		if shape == 2 {
			if t.source == 0 {
				return gcetcbendorsement.SevValidate(ctx, SnpAttestation(t.meas, t.blob), so)
			}
			at := SnpAttestation(t.meas, nil)
			if hostChain != nil && hostChainInUse {
				at.CertificateChain = hostChain
			}
			return gcetcbendorsement.SevValidate(ctx, at, so)
		}
		switch t.source {
		case 0:
			return f(SnpAttestation(t.meas, nil), t.blob)
		case 1:
			return f(SnpAttestation(t.meas, nil), nil)
		}
		// the endorsement comes from the options: a per-closure setting, so use a closure over a
		// copy of the shared options with the endorsement set (still sharing the SNP sub-structure)
		oc := *o
		oc.Endorsement = is.Proto
		if t.expired {
			oc.Now = now.Add(20 * 365 * 24 * time.Hour)
		}
		return verify.SNPValidateFunc(&oc)(SnpAttestation(t.meas, nil), nil)
	}
	// ---- isolation baseline: each call alone on fresh, identically configured values ----
	for _, t := range tasks {
		o := newOpts()
		so := newSevOpts()
		f := verify.SNPValidateFunc(o)
		if t.otherFamily {
			f = verify.SNPFamilyValidateFunc(c09OtherFamily, o)
		}
		err := call(t, f, o, so)
		t.want = err == nil
	}
	// ---- shared values ----
	hostChainInUse = true
	sharedOpts := newOpts()
	sharedSev := newSevOpts()
	// validators of two firmware families built from ONE options value, in a drawn order
	var sharedF, sharedOther func(*spb.Attestation, []byte) error
	if r.Bool("other-family-validator-first") {
		sharedOther = verify.SNPFamilyValidateFunc(c09OtherFamily, sharedOpts)
		sharedF = verify.SNPValidateFunc(sharedOpts)
	} else {
		sharedF = verify.SNPValidateFunc(sharedOpts)
		sharedOther = verify.SNPFamilyValidateFunc(c09OtherFamily, sharedOpts)
	}
	// A poisoned delivery first (sometimes): an endorsement whose golden measurement parses up to a
	// measurements entry carrying the UNENDORSED measurement (under a count the genuine document
	// does not list) and is then cut: rejected, and nothing of it may survive into later calls.
	poisonMeas := otherIs.Golden.SevSnp.Measurements[2]
	if r.Chance(30, "poison-first?") {
		extra, _ := proto.Marshal(&epb.VMGoldenMeasurement{SevSnp: &epb.VMSevSnp{Measurements: map[uint32][]byte{3: poisonMeas}}})
		payload := append(append(append([]byte(nil), is.Proto.SerializedUefiGolden...), extra...), 0xff, 0xff, 0xff, 0xff)
		bad, _ := proto.Marshal(&epb.VMLaunchEndorsement{SerializedUefiGolden: payload, Signature: is.Proto.Signature})
		pt := &c09Task{meas: poisonMeas, measClass: "unendorsed", source: 0, blob: bad, blobClass: "poisoned"}
		for i := 0; i < 2; i++ {
			var perr error
			if shape == 2 {
				perr = gcetcbendorsement.SevValidate(ctx, SnpAttestation(pt.meas, bad), sharedSev)
			} else {
				perr = sharedF(SnpAttestation(pt.meas, nil), bad)
			}
			if perr == nil {
				r.Fail("unendorsed-accepted", "poisoned-delivery", "a cut endorsement carrying the unendorsed measurement was accepted")
			}
		}
		r.Probe("poisoned-delivery-first")
	}
	successive := r.Chance(15, "successive-only?")
	if successive {
		s.maxSteps = 0
	}
	// a transient network outage during the calls: the call whose own fetch fails may fail; nobody
	// else may, and nothing of the failure may stick to the shared validator
	if r.Chance(20, "net-outage?") {
		net.FailNext = 1 + r.Intn(2, "outage-requests")
		net.OnFault = func() {
			r.Fault("net-transient", "during the concurrent calls")
			if t := s.self(); t != nil {
				t.netFault = true
			}
		}
	}
	setYieldHook(s.yield)
	setBlockedHook(s.blocked)
	var fns []func()
	for _, t := range tasks {
		t := t
		fns = append(fns, func() {
			f := sharedF
			if shape == 1 {
				f = verify.SNPValidateFunc(sharedOpts)
			}
			if t.otherFamily {
				f = sharedOther
			}
			t.got = call(t, f, sharedOpts, sharedSev)
		})
	}
	s.run(fns)
	setYieldHook(nil)
	setBlockedHook(nil)
	net.Yield = nil
	net.FailNext, net.OnFault = 0, nil
	if s.stuck {
		// goroutines of this run are still parked or blocked: nothing further can be said
		r.HarnessErr = fmt.Sprintf("C09: a task neither finished nor reached a yield point within %v (schedule %s): it waits for a primitive the scheduler does not control while its holder is parked", stuckAfter, core.Short(string(s.picks), 60))
		return
	}
	if s.nblocked > 0 {
		r.Probes["lock-contended"] += s.nblocked
	}
	if s.nwaiting > 0 {
		r.Probes["blocked-in-uncontrolled-primitive"] += s.nwaiting
	}
	if s.naux > 0 {
		r.Probes["helper-goroutines-scheduled"] += s.naux
	}
	if s.deadlock {
		r.Fail("result-differs-from-isolation", "deadlock", "the concurrent calls wait for each other's locks for ever (schedule %s): no call completes, each completes in isolation", core.Short(string(s.picks), 80))
		return
	}
	sig := string(s.picks)
	r.Eval(fmt.Sprintf("shape%d|n%d|%s", shape, nTasks, sig), s.switches > 0)
	r.Eventf("schedule shape=%d tasks=%d switches=%d picks=%d successive=%v", shape, nTasks, s.switches, len(s.picks), successive)
	var desc []string
	for i, t := range tasks {
		desc = append(desc, fmt.Sprintf("%c:%s/src%d/%s", 'A'+i, t.measClass, t.source, t.blobClass))
	}
	for i, st := range s.tasks {
		if st.panicV != nil {
			r.Fail("result-differs-from-isolation", "panic", "task %c panicked under the schedule: %v", 'A'+i, st.panicV)
		}
	}
	where := fmt.Sprintf("shared=%d named=%d tasks=[%s] schedule=%s", shape, named, strings.Join(desc, " "), core.Short(sig, 80))
	for i, t := range tasks {
		got := t.got == nil
		if t.blobClass == "bad-signature" && got {
			r.Fail("unendorsed-accepted", fmt.Sprintf("bad-blob/shared-%d", shape), "%s: task %c's attestation carries an endorsement with a broken signature, yet it was accepted", where, 'A'+i)
		}
		if strings.HasPrefix(t.measClass, "unendorsed") && got {
			r.Fail("unendorsed-accepted", fmt.Sprintf("shared-%d", shape), "%s: task %c's report carries a measurement the endorsement does not list, yet it was accepted (%d context switches)", where, 'A'+i, s.switches)
		}
		// its own fetch hit the transient outage (seen on its goroutine, or — when the code under
		// test downloads in a helper goroutine — told by the error it returns)
		if !got && (s.tasks[i].netFault || (t.got != nil && strings.Contains(t.got.Error(), "connection reset (transient)"))) {
			r.Probe("call-failed-on-its-own-fetch")
			continue
		}
		if got != t.want {
			r.Fail("result-differs-from-isolation", fmt.Sprintf("shared-%d", shape), "%s: task %c got accept=%v, the same call in isolation gives accept=%v (error: %v)", where, 'A'+i, got, t.want, t.got)
		}
	}
	// later calls run alone; one that never comes back (a lock a finished call left taken) is found
	// blocked by its goroutine state, not by waiting
	hung := false
	origCall := call
	call = func(t *c09Task, f func(*spb.Attestation, []byte) error, o *verify.Options, so *gcetcbendorsement.SevValidateOptions) error {
		if hung {
			return fmt.Errorf("not called: an earlier call through the shared value never returned")
		}
		done := make(chan error, 1)
		st := &stask{}
		ready := make(chan struct{})
		go func() {
			st.gid = goid()
			close(ready)
			done <- origCall(t, f, o, so)
		}()
		<-ready
		for waited := time.Duration(0); ; waited += 5 * time.Millisecond {
			select {
			case err := <-done:
				return err
			case <-time.After(5 * time.Millisecond):
				if blockedForReal(st) {
					hung = true
					r.Fail("result-differs-from-isolation", fmt.Sprintf("later-call-never-returns/shared-%d", shape), "after the concurrent calls, a call on its own through the shared value blocks for ever (it waits for a lock nobody holds any more); the same call on a fresh value returns")
				}
				if waited > stuckAfter {
					r.HarnessErr = "C09: a later isolated call did not return within " + stuckAfter.String()
					panic("c09: later call stuck")
				}
			}
		}
	}
	// ---- a later isolated call through the shared value must behave like a fresh one ----
	probe := &c09Task{meas: otherIs.Golden.SevSnp.Measurements[2], measClass: "unendorsed", source: r.Intn(2, "probe-source")}
	fresh, freshSev := newOpts(), newSevOpts()
	hostChainInUse = false // the reference call gets a chain message of its own
	wantErr := call(probe, verify.SNPValidateFunc(fresh), fresh, freshSev)
	hostChainInUse = true
	gotErr := call(probe, sharedF, sharedOpts, sharedSev)
	if (wantErr == nil) != (gotErr == nil) {
		r.Fail("result-differs-from-isolation", fmt.Sprintf("later-call/shared-%d", shape), "%s: after the calls above, an isolated call through the shared value gives accept=%v, a fresh value gives accept=%v", where, gotErr == nil, wantErr == nil)
	}
	// several reports in a row whose endorsement the bucket does not have, one after the other
	// through the shared value: each is refused on its own, and none of it may stick either
	if r.Chance(40, "a-run-of-refusals-first?") {
		for k := 0; k < 4; k++ {
			// measurements nobody ever signed: the bucket answers 404 to each
			refused := &c09Task{meas: bytes.Repeat([]byte{0xA5 + byte(k)}, 48), measClass: "unendorsed", source: 1}
			if e := call(refused, sharedF, sharedOpts, sharedSev); e == nil {
				r.Fail("unendorsed-accepted", fmt.Sprintf("run-of-refusals/shared-%d", shape), "%s: report %d of a run of reports with a measurement nobody signed was accepted", where, k+1)
			}
		}
		r.Probe("run-of-refusals-before-later-fetch")
	}
	// and an endorsed report fetched over the (healed) network: whatever failed earlier must not stick
	{
		good := &c09Task{meas: is.Golden.SevSnp.Measurements[2], measClass: "endorsed", source: 1, blob: is.Bytes, blobClass: "genuine"}
		if named != 0 {
			good.meas = is.Golden.SevSnp.Measurements[named]
		}
		f3, fs3 := newOpts(), newSevOpts()
		hostChainInUse = false
		w := call(good, verify.SNPValidateFunc(f3), f3, fs3)
		hostChainInUse = true
		g := call(good, sharedF, sharedOpts, sharedSev)
		if (w == nil) != (g == nil) {
			r.Fail("result-differs-from-isolation", fmt.Sprintf("later-fetch/shared-%d", shape), "%s: after the calls above, an endorsed report fetched through the shared value gives accept=%v (%v), a fresh value gives accept=%v", where, g == nil, g, w == nil)
		}
	}
	// a caller that decodes every report into ONE buffer: two endorsed reports in a row over the
	// network through the shared validator, the second measurement written over the first in place
	if shape != 2 {
		buf := make([]byte, 48)
		c := uint32(2)
		if named != 0 {
			c = named
		}
		// two firmwares, each endorsed by its own bucket object
		first, second := is.Golden.SevSnp.Measurements[c], otherIs.Golden.SevSnp.Measurements[c]
		prev, had := net.Objects[SnpURL(second)]
		net.Objects[SnpURL(second)] = otherIs.Bytes
		defer func() {
			if had {
				net.Objects[SnpURL(second)] = prev
			} else {
				delete(net.Objects, SnpURL(second))
			}
		}()
		for step, m := range [][]byte{first, second, first} {
			copy(buf, m)
			at := SnpAttestation(nil, nil)
			at.Report.Measurement = buf
			hostChainInUse = false
			f4 := newOpts()
			w := verify.SNPValidateFunc(f4)(SnpAttestation(m, nil), nil)
			g := sharedF(at, nil)
			if (w == nil) != (g == nil) {
				r.Fail("result-differs-from-isolation", fmt.Sprintf("reused-report-buffer/shared-%d", shape), "%s: report %d of a caller that reuses one measurement buffer gives accept=%v (%v) through the shared validator, accept=%v through a fresh one", where, step+1, g == nil, g, w == nil)
			}
		}
		r.Probe("reused-report-buffer")
	}
	if shape == 2 {
		// and one whose own endorsement is forged
		bad := &c09Task{meas: is.Golden.SevSnp.Measurements[2], measClass: "endorsed", source: 0, blob: Reassemble(is.Golden, nil, AttackerKey(a, 1), 0), blobClass: "bad-signature"}
		if named != 0 {
			bad.meas = is.Golden.SevSnp.Measurements[named]
		}
		f2, fs2 := newOpts(), newSevOpts()
		hostChainInUse = false
		w := call(bad, verify.SNPValidateFunc(f2), f2, fs2)
		hostChainInUse = true
		g := call(bad, sharedF, sharedOpts, sharedSev)
		if (w == nil) != (g == nil) {
			r.Fail("result-differs-from-isolation", "later-call/forged-blob/shared-2", "%s: after the calls above, an attestation carrying a forged endorsement gives accept=%v through the shared options, accept=%v through fresh ones", where, g == nil, w == nil)
		}
	}
	if s.switches > 0 {
		r.Probe("interleaved")
	}
	r.State(fmt.Sprintf("shape%d", shape))
	r.Sample = map[string]any{"shared": []string{"one closure", "one options value, closure per task", "one SevValidateOptions", "one closure, SNP==nil at creation"}[shape],
		"tasks": desc, "schedule": core.Short(sig, 120), "context_switches": s.switches, "instrumented": instrumented}
}
