package worldr

import (
	"fmt"

	"verifsim/core"
)

// pos draws a position in [0,n) biased towards the first and last 64 bytes (where length
// prefixes, headers and trailers live).
func pos(r *core.Run, n int, label string) int {
	if n <= 1 {
		return 0
	}
	switch r.Intn(4, label+"-zone") {
	case 0:
		m := 64
		if m > n {
			m = n
		}
		return r.Intn(m, label+"-head")
	case 1:
		m := 64
		if m > n {
			m = n
		}
		return n - 1 - r.Intn(m, label+"-tail")
	}
	return r.Intn(n, label)
}

// Corrupt applies one drawn byte-level operator of the byzantine channel to b and returns the
// result with a description. The input is not modified.
func Corrupt(r *core.Run, b []byte, label string) ([]byte, string) {
	out := append([]byte(nil), b...)
	n := len(out)
	if n == 0 {
		return []byte{byte(r.Intn(256, label+"-byte"))}, "insert-byte-into-empty"
	}
	switch op := r.Intn(9, label+"-op"); op {
	case 0:
		p := pos(r, n, label+"-flip")
		bit := r.Intn(8, label+"-bit")
		out[p] ^= 1 << bit
		return out, fmt.Sprintf("flip-bit@%d.%d", p, bit)
	case 1:
		p := pos(r, n, label+"-ovw")
		v := byte(r.Intn(256, label+"-val"))
		if out[p] == v {
			v ^= 0xff
		}
		out[p] = v
		return out, fmt.Sprintf("overwrite@%d", p)
	case 2:
		p := pos(r, n, label+"-trunc")
		return out[:p], fmt.Sprintf("truncate@%d", p)
	case 3:
		return nil, "empty"
	case 4:
		p := pos(r, n, label+"-zero")
		l := 1 + r.Intn(64, label+"-zero-len")
		for i := p; i < n && i < p+l; i++ {
			out[i] = 0
		}
		return out, fmt.Sprintf("zero@%d+%d", p, l)
	case 5:
		p := pos(r, n, label+"-dup")
		l := 1 + r.Intn(64, label+"-dup-len")
		if p+l > n {
			l = n - p
		}
		dup := append(append(append([]byte(nil), out[:p+l]...), out[p:p+l]...), out[p+l:]...)
		return dup, fmt.Sprintf("duplicate@%d+%d", p, l)
	case 6:
		p := pos(r, n, label+"-ff")
		l := 1 + r.Intn(8, label+"-ff-len")
		for i := p; i < n && i < p+l; i++ {
			out[i] = 0xff
		}
		return out, fmt.Sprintf("ff@%d+%d", p, l)
	case 7:
		l := 1 + r.Intn(32, label+"-app-len")
		for i := 0; i < l; i++ {
			out = append(out, byte(r.Intn(256, label+"-app")))
		}
		return out, fmt.Sprintf("append+%d", l)
	default:
		p := pos(r, n, label+"-del")
		l := 1 + r.Intn(16, label+"-del-len")
		if p+l > n {
			l = n - p
		}
		return append(out[:p], out[p+l:]...), fmt.Sprintf("delete@%d+%d", p, l)
	}
}

// Splice replaces a drawn range of b with a drawn range of other (bytes of another genuine
// artefact).
func Splice(r *core.Run, b, other []byte, label string) ([]byte, string) {
	if len(b) == 0 || len(other) == 0 {
		return append([]byte(nil), other...), "replace"
	}
	p := pos(r, len(b), label+"-at")
	q := pos(r, len(other), label+"-from")
	l := 1 + r.Intn(128, label+"-len")
	if q+l > len(other) {
		l = len(other) - q
	}
	end := p + l
	if end > len(b) {
		end = len(b)
	}
	out := append(append(append([]byte(nil), b[:p]...), other[q:q+l]...), b[end:]...)
	return out, fmt.Sprintf("splice@%d<-%d+%d", p, q, l)
}
