// Package worlda simulates the authority lifecycle: operator processes running bootstrap, rotate
// and wipeout against a key manager, a certificate authority and an object store, with faults,
// crashes and restarts (properties C03, C10, C11, C12).
package worlda

import (
	"context"
	"crypto"
	"crypto/rsa"
	"crypto/x509"
	"fmt"
	"io"
	"math/big"
	"os"
	"path/filepath"
	"sort"
	"strings"
	"time"

	"github.com/google/gce-tcb-verifier/cmd"
	"github.com/google/gce-tcb-verifier/cmd/output"
	"github.com/google/gce-tcb-verifier/keys"
	"github.com/google/gce-tcb-verifier/keys/gcpkms"
	"github.com/google/gce-tcb-verifier/rotate"
	"github.com/google/gce-tcb-verifier/sign/gcsca"
	"github.com/google/gce-tcb-verifier/sign/memca"
	"github.com/google/gce-tcb-verifier/sign/nonprod"
	sops "github.com/google/gce-tcb-verifier/sign/ops"
	styp "github.com/google/gce-tcb-verifier/sign/types"
	"github.com/google/gce-tcb-verifier/storage/local"
	"github.com/google/gce-tcb-verifier/storage/storagei"
	"github.com/google/gce-tcb-verifier/testing/nonprod/localca"
	"github.com/google/gce-tcb-verifier/testing/nonprod/localkm"
	"github.com/google/gce-tcb-verifier/testing/nonprod/memkm"

	"verifsim/core"
	"verifsim/keypool"
	"verifsim/seams"
	"verifsim/worldk"
)

// Epoch is the simulated "now" at the start of every run: after the 2 Aug 2024 provenance
// cut-over of the verifier.
var Epoch = time.Date(2025, 1, 1, 0, 0, 0, 0, time.UTC)

// Config selects the shipped components an authority is assembled from.
type Config struct {
	KM     string // "memkm" | "localkm" | "gcpkms" (real keys/gcpkms Manager+Signer over SimKMS, zero generation latency)
	CA     string // "memca" | "gcsca" (over SimDisk) | "localca" (gcsca over storage/local)
	ViaCLI bool   // drive the cobra commands instead of the rotate library calls
	// LongLived: one set of key-manager / CA objects serves the whole run (a long-lived signing
	// service) instead of a fresh process per command. Library configurations only.
	LongLived bool
}

func (c Config) String() string {
	via := "lib"
	if c.ViaCLI {
		via = "cli"
	}
	if c.LongLived {
		via += "+long-lived"
	}
	return c.KM + "+" + c.CA + "/" + via
}

const (
	bucket   = "ca-bucket"
	certDirDefault = "certs"
	rootPathDefault = "root.crt"
)

// Authority is one simulated certificate authority with its durable state. Every operation is
// executed as a fresh simulated process: new CA and key-manager objects over the durable state.
type Authority struct {
	R      *core.Run
	Cfg    Config
	Plan   *seams.FaultPlan
	Disk   *seams.SimDisk              // durable objects of the "gcsca" configuration
	MemCA  *memca.CertificateAuthority // the "memca" configuration is its own store
	Signer *nonprod.Signer             // memkm: the key service's memory (survives process restarts)
	KMS    *worldk.SimKMS              // gcpkms: the simulated Cloud KMS (a remote service: survives crashes)
	Dir    string                      // scratch directory (localkm keys, localca bucket root)
	Keygen *keypool.Gen
	Rand   io.Reader
	Now    time.Time

	// Zone, when set, is the time zone the operator writes timestamps in.
	Zone *time.Location
	// Decorate enables the fault-injecting decorators around key manager, signer and CA.
	Decorate bool
	// Order decides the certificate upload order inside gcsca.Finalize (hook H1); nil = sorted.
	Order func(sorted []string) []string
	// UsedSigner is the signer object of the most recent simulated process (for inspection).
	lastSigner *nonprod.Signer

	// Persist models a long-lived process: the same key-manager and certificate-authority objects
	// (with whatever they cache) serve every operation and view instead of fresh ones per command.
	Persist bool
	proc    *process

	// Ordering bookkeeping of the operation in flight (decorated runs only).
	FinalizeOK bool // the CA's Finalize has returned nil in this operation
	Destroys   []DestroyRec
}

// DestroyRec records one DestroyKeyVersion call and whether the mutation had been made durable.
type DestroyRec struct {
	Name            string
	AfterFinalizeOK bool
}

// NewAuthority builds an empty authority for the run.
func NewAuthority(r *core.Run, cfg Config, plan *seams.FaultPlan) *Authority {
	a := &Authority{R: r, Cfg: cfg, Plan: plan, Now: Epoch, Persist: cfg.LongLived && !cfg.ViaCLI,
		Keygen: &keypool.Gen{Base: r.Intn(len(keypool.Pool()), "keypool-base")},
		Rand:   core.NewDetReader(r.Seed ^ 0x5eed)}
	a.Signer = &nonprod.Signer{Rand: a.Rand}
	a.Disk = seams.NewSimDisk(r, plan)
	a.MemCA = memca.Create()
	if cfg.KM == "gcpkms" {
		a.KMS = worldk.NewSimKMS(r)
		a.KMS.Plan = plan
	}
	if cfg.KM == "localkm" || cfg.CA == "localca" {
		d, err := os.MkdirTemp("", "verifsim-a-")
		if err != nil {
			panic(err)
		}
		a.Dir = d
		r.Defer(func() { os.RemoveAll(d) })
		os.MkdirAll(filepath.Join(d, "keys"), 0o755)
		os.MkdirAll(filepath.Join(d, "bucketroot"), 0o755)
	}
	return a
}

// stamp is the operator's --timestamp: the authority's clock reading, told in the operator's time
// zone when one is set (the same instant).
func (a *Authority) stamp() time.Time {
	if a.Zone != nil {
		return a.Now.In(a.Zone)
	}
	return a.Now
}

func (a *Authority) installHooks() {
	a.FinalizeOK, a.Destroys = false, nil
	nonprod.VerifGenerateKey = a.Keygen.Generate
	gcsca.VerifUploadOrder = a.Order
}

// process is the volatile part of one simulated operator process.
type process struct {
	km     cmd.CommandComponent
	ca     cmd.CommandComponent
	mgr    keys.ManagerInterface
	signer styp.Signer
	caI    styp.CertificateAuthority
}

func (a *Authority) storage(faulty bool) storagei.Client {
	if a.Cfg.CA == "localca" {
		return &local.StorageClient{Root: filepath.Join(a.Dir, "bucketroot")}
	}
	if faulty {
		return a.Disk
	}
	return &seams.SimDisk{R: a.R, Objects: a.Disk.Objects, Buckets: a.Disk.Buckets, FailCloseN: -1}
}

// newProcess builds fresh component objects over the durable state. faulty selects whether the
// storage seam consults the fault plan (operations) or not (oracle views).
func (a *Authority) newProcess(faulty bool) (*process, error) {
	if a.Persist && a.proc != nil {
		return a.proc, nil
	}
	p := &process{}
	if a.Persist {
		faulty = true // one set of objects for operations and views alike
		defer func() { a.proc = p }()
	}
	switch a.Cfg.KM {
	case "memkm":
		km := &memkm.T{Signer: a.Signer}
		p.km, p.mgr, p.signer = km, km, a.Signer
		a.lastSigner = a.Signer
	case "localkm":
		s := &nonprod.Signer{Rand: a.Rand}
		km := &localkm.T{T: memkm.T{Signer: s}, KeyDir: filepath.Join(a.Dir, "keys")}
		p.km, p.mgr, p.signer = km, km, s
		a.lastSigner = s
	case "gcpkms":
		km := &gcpkms.Manager{Project: "p", Location: "l", KeyRingID: "ring", KeyClient: a.KMS, IAMClient: &worldk.SimIAM{K: a.KMS}}
		p.km, p.mgr, p.signer = km, km, &gcpkms.Signer{Manager: km}
	default:
		return nil, fmt.Errorf("unknown km %q", a.Cfg.KM)
	}
	switch a.Cfg.CA {
	case "memca":
		p.ca, p.caI = a.MemCA, a.MemCA
	case "gcsca":
		ca := &gcsca.CertificateAuthority{Storage: a.storage(faulty), PrivateBucket: bucket,
			SigningCertDirInGCS: certDir(a.R), RootPath: rootPathOf(a.R)}
		p.ca, p.caI = ca, ca
	case "localca":
		ca := &gcsca.CertificateAuthority{Storage: a.storage(faulty), PrivateBucket: bucket,
			SigningCertDirInGCS: certDir(a.R), RootPath: rootPathOf(a.R)}
		p.ca, p.caI = &localca.T{CA: ca}, ca
	default:
		return nil, fmt.Errorf("unknown ca %q", a.Cfg.CA)
	}
	return p, nil
}

// Flags shared by every operation.
type Flags struct {
	Overwrite bool
	KeepGoing bool
}

// BootArgs are the bootstrap command's inputs.
type BootArgs struct {
	Flags
	RootCN, SignCN         string
	RootSerial, SignSerial int64    // 0 = command default
	SignSerialBig          *big.Int // overrides SignSerial (serials beyond 64 bits)
}

// RotArgs are the rotate command's inputs.
type RotArgs struct {
	Flags
	SignCN         string
	SerialOverride int64    // 0 = predecessor + 1
	SerialBig      *big.Int // overrides SerialOverride (serials beyond 64 bits)
}

// certDir is the directory for signing certificates as the operator spelled it for this run
// (run setting "cert-dir"; any spelling names the same directory).
func certDir(r *core.Run) string { return r.Var("cert-dir", certDirDefault) }

// rootPathOf is the object the operator named for the root certificate (run setting "root-path").
func rootPathOf(r *core.Run) string { return r.Var("root-path", rootPathDefault) }

func (a *Authority) caFlags() []string {
	var out []string
	if a.Cfg.CA == "gcsca" || a.Cfg.CA == "localca" {
		out = append(out, "--bucket", bucket, "--cert_dir", certDir(a.R), "--root_path", rootPathOf(a.R))
	}
	if a.Cfg.CA == "localca" {
		out = append(out, "--bucket_root", filepath.Join(a.Dir, "bucketroot"))
	}
	if a.Cfg.KM == "localkm" {
		out = append(out, "--key_dir", filepath.Join(a.Dir, "keys"))
	}
	if a.Cfg.KM == "gcpkms" {
		out = append(out, "--project", "p", "--location", "l", "--key_ring", "ring")
	}
	return out
}

// kmsFlags are the per-command flags of the gcpkms components.
func (a *Authority) kmsFlags(op string) []string {
	if a.Cfg.KM != "gcpkms" {
		return nil
	}
	switch op {
	case "bootstrap":
		return []string{"--root_key", "root", "--signing_key", "signing", "--signing_key_operators", "user:operator@example.com"}
	case "rotate":
		return []string{"--signing_key", "signing"}
	}
	return nil
}

// kmsContext adds the gcpkms contexts the library calls expect.
func (a *Authority) kmsContext(ctx context.Context, op string) context.Context {
	if a.Cfg.KM != "gcpkms" {
		return ctx
	}
	switch op {
	case "bootstrap":
		return gcpkms.NewBootstrapContext(ctx, &gcpkms.BootstrapContext{RootKeyID: "root", SigningKeyID: "signing", SigningKeyOperators: []string{"user:operator@example.com"}})
	case "rotate":
		return gcpkms.NewSigningKeyContext(ctx, &gcpkms.SigningKeyContext{SigningKeyID: "signing"})
	}
	return ctx
}

func (f Flags) args() []string {
	out := []string{"--quiet"}
	if f.Overwrite {
		out = append(out, "--overwrite")
	}
	if f.KeepGoing {
		out = append(out, "--keep_going")
	}
	return out
}

// decorator is the command component that wraps manager, signer and CA with fault decorators
// after the shipped components have installed themselves in the keys.Context.
func (a *Authority) decorator() cmd.CommandComponent {
	return &cmd.PartialComponent{FInitContext: func(ctx context.Context) (context.Context, error) {
		if !a.Decorate {
			return ctx, nil
		}
		c, err := keys.FromContext(ctx)
		if err != nil {
			return nil, err
		}
		if c.Manager != nil {
			c.Manager = &faultyManager{c.Manager, a.Plan, a}
		}
		if c.Signer != nil {
			c.Signer = &faultySigner{c.Signer, a.Plan}
		}
		if c.CA != nil {
			c.CA = &faultyCA{c.CA, a.Plan, a}
		}
		return ctx, nil
	}}
}

// runCLI executes one cobra command line in a fresh app (= a fresh process).
func (a *Authority) runCLI(p *process, extra cmd.CommandComponent, args []string) error {
	var bootC, rotC cmd.CommandComponent
	if a.Cfg.KM == "gcpkms" {
		bootC, rotC = &gcpkms.BootstrapContext{}, &gcpkms.SigningKeyContext{}
	}
	app := &cmd.AppComponents{
		Bootstrap:       bootC,
		Rotate:          rotC,
		Global:          cmd.Compose(p.km, p.ca, a.decorator()),
		SignatureRandom: a.Rand,
		Storage:         &local.StorageClient{}, // only used to read --svsm_* files
		Endorse:         extra,
	}
	cliBase, cliCancel := context.WithCancel(context.Background())
	if a.Plan != nil {
		a.Plan.Cancel = cliCancel
	}
	root := cmd.MakeApp(cliBase, app)
	root.SetArgs(args)
	root.SilenceErrors = true
	root.SilenceUsage = true
	root.SetOut(io.Discard)
	root.SetErr(io.Discard)
	return root.Execute()
}

// libContext builds the context the rotate library calls expect, the way the commands do.
func (a *Authority) libContext(p *process, f Flags) (context.Context, error) {
	base, cancel := context.WithCancel(context.Background())
	if a.Plan != nil {
		a.Plan.Cancel = cancel // a plan may have the caller give up at one of its numbered calls
	}
	ctx := output.NewContext(base, &output.Options{Quiet: true, Overwrite: f.Overwrite, KeepGoing: f.KeepGoing})
	ctx = keys.NewContext(ctx, &keys.Context{Random: a.Rand})
	var err error
	if lk, ok := p.km.(*localkm.T); ok {
		if err := lk.PersistentPreRunE(nil, nil); err != nil {
			return nil, err
		}
	}
	return ctx, err
}

func (a *Authority) initComponents(ctx context.Context, p *process) (context.Context, error) {
	return cmd.ComposeInitContext(ctx, p.km, p.ca, a.decorator())
}

// Bootstrap runs the bootstrap operation as one simulated process.
func (a *Authority) Bootstrap(b BootArgs) (err error, crashed bool) {
	a.installHooks()
	a.R.Eventf("op bootstrap %s rootcn=%s signcn=%s rs=%d ss=%d ow=%v kg=%v t=%d", a.Cfg, b.RootCN, b.SignCN, b.RootSerial, b.SignSerial, b.Overwrite, b.KeepGoing, a.Now.Unix())
	err, crashed, _ = a.Plan.RunOp(func() error {
		p, err := a.newProcess(true)
		if err != nil {
			return err
		}
		if a.Cfg.ViaCLI {
			args := append([]string{"bootstrap"}, b.Flags.args()...)
			args = append(args, a.caFlags()...)
			args = append(args, a.kmsFlags("bootstrap")...)
			args = append(args, "--timestamp", a.stamp().Format(time.RFC3339))
			if b.RootCN != "" {
				args = append(args, "--root_key_cn", b.RootCN)
			}
			if b.SignCN != "" {
				args = append(args, "--signing_key_cn", b.SignCN)
			}
			if b.RootSerial != 0 {
				args = append(args, "--root_key_serial", padSerial(b.RootSerial))
			}
			if b.SignSerialBig != nil {
				args = append(args, "--initial_signing_key_serial", b.SignSerialBig.String())
			} else if b.SignSerial != 0 {
				args = append(args, "--initial_signing_key_serial", padSerial(b.SignSerial))
			}
			return a.runCLI(p, nil, args)
		}
		ctx, err := a.libContext(p, b.Flags)
		if err != nil {
			return err
		}
		bc := &rotate.BootstrapContext{RootKeyCommonName: orDefault(b.RootCN, "GCE-cc-tcb-root"),
			SigningKeyCommonName: orDefault(b.SignCN, "GCE-uefi-signer"),
			RootKeySerial:        big.NewInt(orDefaultI(b.RootSerial, 1)), SigningKeySerial: big.NewInt(orDefaultI(b.SignSerial, 2)),
			Now: a.stamp()}
		if b.SignSerialBig != nil {
			bc.SigningKeySerial = new(big.Int).Set(b.SignSerialBig)
		}
		ctx = a.kmsContext(rotate.NewBootstrapContext(ctx, bc), "bootstrap")
		ctx, err = a.initComponents(ctx, p)
		if err != nil {
			return err
		}
		return rotate.Bootstrap(ctx)
	})
	if crashed {
		a.proc = nil
	}
	a.R.Eventf("op bootstrap -> %s", errClass(err, crashed))
	return err, crashed
}

// Rotate runs the rotate operation as one simulated process.
func (a *Authority) Rotate(ra RotArgs) (err error, crashed bool) {
	a.installHooks()
	a.R.Eventf("op rotate %s signcn=%s serial=%d ow=%v kg=%v t=%d", a.Cfg, ra.SignCN, ra.SerialOverride, ra.Overwrite, ra.KeepGoing, a.Now.Unix())
	err, crashed, _ = a.Plan.RunOp(func() error {
		p, err := a.newProcess(true)
		if err != nil {
			return err
		}
		if a.Cfg.ViaCLI {
			args := append([]string{"rotate"}, ra.Flags.args()...)
			args = append(args, a.caFlags()...)
			args = append(args, a.kmsFlags("rotate")...)
			args = append(args, "--timestamp", a.stamp().Format(time.RFC3339))
			if ra.SignCN != "" {
				args = append(args, "--signing_key_cn", ra.SignCN)
			}
			if ra.SerialBig != nil {
				args = append(args, "--rotated_key_serial_override", ra.SerialBig.String())
			} else if ra.SerialOverride != 0 {
				args = append(args, "--rotated_key_serial_override", padSerial(ra.SerialOverride))
			}
			return a.runCLI(p, nil, args)
		}
		ctx, err := a.libContext(p, ra.Flags)
		if err != nil {
			return err
		}
		skc := &rotate.SigningKeyContext{SigningKeyCommonName: orDefault(ra.SignCN, "GCE-uefi-signer"),
			SigningKeySerial: big.NewInt(ra.SerialOverride), Now: a.stamp()}
		if ra.SerialBig != nil {
			skc.SigningKeySerial = new(big.Int).Set(ra.SerialBig)
		}
		ctx = a.kmsContext(rotate.NewSigningKeyContext(ctx, skc), "rotate")
		ctx, err = a.initComponents(ctx, p)
		if err != nil {
			return err
		}
		// What RotateCommand.InitContext does: 0 means predecessor + 1.
		if skc.SigningKeySerial.Sign() == 0 {
			skc.SigningKeySerial, err = sops.NextSigningKeySerial(ctx)
			if err != nil {
				return err
			}
		}
		_, err = rotate.Key(ctx)
		return err
	})
	if crashed {
		a.proc = nil
	}
	a.R.Eventf("op rotate -> %s", errClass(err, crashed))
	return err, crashed
}

// Wipeout runs wipeout ("ca", "keys" or "all") as one simulated process.
func (a *Authority) Wipeout(what string, f Flags) (err error, crashed bool) {
	a.installHooks()
	a.R.Eventf("op wipeout %s %s", a.Cfg, what)
	err, crashed, _ = a.Plan.RunOp(func() error {
		p, err := a.newProcess(true)
		if err != nil {
			return err
		}
		if a.Cfg.ViaCLI {
			args := append([]string{"wipeout"}, f.args()...)
			args = append(args, a.caFlags()...)
			if what != "all" {
				args = append(args, what)
			}
			return a.runCLI(p, nil, args)
		}
		ctx, err := a.libContext(p, f)
		if err != nil {
			return err
		}
		ctx = rotate.NewWipeoutContext(ctx, &rotate.WipeoutContext{CA: what != "keys", Keys: what != "ca"})
		ctx, err = a.initComponents(ctx, p)
		if err != nil {
			return err
		}
		return rotate.Wipeout(ctx)
	})
	if crashed {
		a.proc = nil
	}
	a.R.Eventf("op wipeout -> %s", errClass(err, crashed))
	return err, crashed
}

// View is an oracle's fault-free look at the authority through fresh component objects, i.e. what
// a newly started process would see.
type View struct {
	CA     styp.CertificateAuthority
	Signer styp.Signer
	Ctx    context.Context
}

// View builds a fresh, fault-free view of the durable state.
func (a *Authority) View() (*View, error) { return a.view(false) }

// DurableView is what a newly started process sees of the durable state: fresh key-manager and
// certificate-authority objects even when the authority models a long-lived process (whose own objects
// may answer from what they remember rather than from what the store holds).
func (a *Authority) DurableView() (*View, error) { return a.view(true) }

func (a *Authority) view(fresh bool) (*View, error) {
	if fresh && a.Persist {
		a.Persist = false
		defer func() { a.Persist = true }()
	}
	p, err := a.newProcess(false)
	if err != nil {
		return nil, err
	}
	if lk, ok := p.km.(*localkm.T); ok {
		if err := lk.Init(context.Background()); err != nil {
			return nil, fmt.Errorf("key directory does not load: %w", err)
		}
	}
	ctx := output.NewContext(context.Background(), &output.Options{Quiet: true})
	ctx = keys.NewContext(ctx, &keys.Context{Random: a.Rand, CA: p.caI, Signer: p.signer, Manager: p.mgr})
	return &View{CA: p.caI, Signer: p.signer, Ctx: ctx}, nil
}

// KeyNames lists the key version names the key service currently holds, sorted.
func (a *Authority) KeyNames() []string {
	var out []string
	if a.Cfg.KM == "gcpkms" {
		return a.KMS.LiveVersionNames()
	}
	if a.Cfg.KM == "localkm" {
		es, _ := os.ReadDir(filepath.Join(a.Dir, "keys"))
		for _, e := range es {
			if strings.HasSuffix(e.Name(), ".pem") {
				out = append(out, strings.TrimSuffix(e.Name(), ".pem"))
			}
		}
	} else {
		for k := range a.Signer.Keys {
			out = append(out, k)
		}
	}
	sort.Strings(out)
	return out
}

// CanSign reports whether the key service signs with the named key right now.
func (v *View) CanSign(name string) bool {
	d := make([]byte, 32)
	_, err := v.Signer.Sign(v.Ctx, name, styp.Digest{SHA256: d}, nonprod.DefaultOpts())
	return err == nil
}

// ParseCert parses a DER certificate.
func ParseCert(der []byte) (*x509.Certificate, error) { return x509.ParseCertificate(der) }

func orDefault(s, d string) string {
	if s == "" {
		return d
	}
	return s
}

func orDefaultI(v, d int64) int64 {
	if v == 0 {
		return d
	}
	return v
}

func errClass(err error, crashed bool) string {
	if crashed {
		return "crash"
	}
	if err == nil {
		return "ok"
	}
	return "error"
}

var _ = crypto.SHA256

// Clone returns an independent copy of the authority's durable state (in-memory configurations
// only: SimDisk objects, key-service memory, memca contents). The fault plan is shared.
func (a *Authority) Clone() *Authority {
	if a.Dir != "" || a.KMS != nil {
		panic("Clone: directory- or KMS-backed authorities are not cloned")
	}
	c := *a
	c.Disk = a.Disk.Snapshot()
	c.Signer = &nonprod.Signer{Rand: a.Rand, Now: a.Signer.Now, Keys: map[string]*rsa.PrivateKey{}}
	for k, v := range a.Signer.Keys {
		c.Signer.Keys[k] = v
	}
	c.MemCA = &memca.CertificateAuthority{Certs: map[string]*x509.Certificate{}, RootName: a.MemCA.RootName, PrimarySigningKey: a.MemCA.PrimarySigningKey}
	for k, v := range a.MemCA.Certs {
		c.MemCA.Certs[k] = v
	}
	kg := *a.Keygen
	c.Keygen = &kg
	return &c
}

// CertObjects returns every stored certificate object (name -> bytes) except the manifest, as
// the oracle's raw look at the authority's durable store.
func (a *Authority) CertObjects() map[string][]byte {
	out := map[string][]byte{}
	switch a.Cfg.CA {
	case "gcsca":
		for _, n := range a.Disk.Names(bucket) {
			if n == gcsca.ManifestObjectName {
				continue
			}
			b, _ := a.Disk.Get(bucket, n)
			out[n] = append([]byte(nil), b...)
		}
	case "localca":
		root := filepath.Join(a.Dir, "bucketroot", bucket)
		filepath.Walk(root, func(p string, info os.FileInfo, err error) error {
			if err != nil || info.IsDir() {
				return nil
			}
			rel, _ := filepath.Rel(root, p)
			if rel == gcsca.ManifestObjectName {
				return nil
			}
			b, _ := os.ReadFile(p)
			out[rel] = b
			return nil
		})
	case "memca":
		for k, c := range a.MemCA.Certs {
			out[k] = append([]byte(nil), c.Raw...)
		}
	}
	return out
}

// RunEndorseCLI runs the `endorse` cobra command in a fresh simulated process over this
// authority. extra is the application's Endorse component (it installs the version-control seam).
func (a *Authority) RunEndorseCLI(extra cmd.CommandComponent, args []string) error {
	a.installHooks()
	p, err := a.newProcess(true)
	if err != nil {
		return err
	}
	full := append([]string{"endorse"}, a.caFlags()...)
	return a.runCLI(p, extra, append(full, args...))
}

// DecoratedView is View with the counting/fault decorators installed around CA, signer and key
// manager (used by recording checks: every call is numbered by the plan while it is Active).
func (a *Authority) DecoratedView() (*View, error) {
	v, err := a.View()
	if err != nil {
		return nil, err
	}
	c, _ := keys.FromContext(v.Ctx)
	c.Manager = &faultyManager{c.Manager, a.Plan, a}
	c.Signer = &faultySigner{c.Signer, a.Plan}
	c.CA = &faultyCA{c.CA, a.Plan, a}
	v.CA, v.Signer = c.CA, c.Signer
	return v, nil
}

// padSerial writes a serial for the command line the way operators copy them out of fixed-width
// listings: every third value zero-padded (a decimal number all the same). Decided by the value,
// not by a draw, so that it costs no choice of the run.
func padSerial(v int64) string {
	if v > 0 && v%3 == 1 {
		return fmt.Sprintf("%05d", v)
	}
	return fmt.Sprint(v)
}
