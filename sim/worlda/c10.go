package worlda

import (
	"fmt"
	"os"
	"path/filepath"
	"strconv"
	"strings"
	"time"

	"verifsim/core"
	"verifsim/seams"
)

var c10Configs = []Config{
	{KM: "memkm", CA: "gcsca", ViaCLI: false},
	{KM: "memkm", CA: "gcsca", ViaCLI: true},
	{KM: "memkm", CA: "memca", ViaCLI: false},
	{KM: "memkm", CA: "memca", ViaCLI: true},
	{KM: "localkm", CA: "gcsca", ViaCLI: false},
	{KM: "localkm", CA: "gcsca", ViaCLI: true},
	{KM: "localkm", CA: "localca", ViaCLI: false},
	{KM: "localkm", CA: "localca", ViaCLI: true},
	{KM: "localkm", CA: "memca", ViaCLI: false},
	{KM: "memkm", CA: "localca", ViaCLI: false},
	{KM: "memkm", CA: "gcsca", LongLived: true},
	{KM: "localkm", CA: "gcsca", LongLived: true},
	{KM: "memkm", CA: "memca", LongLived: true},
	{KM: "localkm", CA: "localca", LongLived: true},
	{KM: "gcpkms", CA: "gcsca"},
	{KM: "gcpkms", CA: "gcsca", ViaCLI: true},
	{KM: "gcpkms", CA: "memca"},
	{KM: "gcpkms", CA: "gcsca", LongLived: true},
}

const c10MaxK = 128

var c10Kinds = []seams.Outcome{seams.ErrBefore, seams.ErrAfter, seams.CrashAfter}

func init() {
	core.Register(&core.Check{
		ID: "C10", World: "A (authority lifecycle)", Level: "fault_enumeration",
		Rule: "one evaluation = one rotation executed under a fault plan over the numbered calls it makes to key manager, signer, certificate authority and object store, followed by a fresh-process health probe (sign + verify with the recorded primary) and a fault-free recovery rotation; " +
			"planned runs sweep EVERY call index x {err-before, err-after(lost ack), crash-after} for every shipped KM x CA x {library, CLI} configuration (quick: after bootstrap; thorough: also after 1 and 2 clean rotations) plus sampled fault pairs; random runs draw plans with per-call rates, or run a CHAIN of 2-4 rotations each under its own random plan and drawn --overwrite / --keep_going with no recovery in between (faults meeting the leftovers of earlier failed attempts), checked after every rotation; " +
			"non-trivial = at least one fault fired inside the rotation; distinct by event fingerprint",
		Exhaustive: "single-fault sweep: every call index of the fault-free rotation x 3 fault kinds, per configuration",
		Assumptions: []string{
			"memkm's key memory is treated as the (remote) key service: it survives a process crash; memca state does not survive a crash, so crash faults are not applied to memca configurations",
			"localkm / storage/local / localca call os.* directly: faults and crashes hit them at call granularity only (no torn file writes)",
			"object store is atomic per object (see C11)",
		},
		Components: []core.Component{
			{Name: "rotate.Key / cmd rotate, rotate.Bootstrap", Kind: "real"},
			{Name: "sign/gcsca, sign/memca, testing/nonprod/localca", Kind: "real"},
			{Name: "testing/nonprod/memkm, localkm, sign/nonprod signer", Kind: "real", Note: "keys from a fixed pool (hook H3); localkm on a per-run scratch directory"},
			{Name: "keys/gcpkms Manager + Signer", Kind: "real", Note: "over SimKMS with zero generation latency; every RPC is a numbered seam call"},
			{Name: "Cloud KMS + IAM", Kind: "stub", Note: "SimKMS / SimIAM"},
			{Name: "endorse.SignDoc, verify.Endorsement (health probe)", Kind: "real"},
			{Name: "object store", Kind: "stub", Note: "SimDisk with fault plan"},
			{Name: "fault decorators around keys.ManagerInterface, styp.Signer, styp.CertificateAuthority", Kind: "stub"},
		},
		Plans:  c10Plans,
		Budget: core.StdBudget(1500, 110*time.Second, 150000, 9*time.Minute),
		Body:   runC10,
	})
}

// c10Head draws the run's configuration in a fixed order so planned prefixes address it.
type c10Head struct {
	cfg, prerot, mode, k, kind, pair, k2, kind2, rate int
	overwrite                                         bool
}

func drawC10Head(r *core.Run) c10Head {
	return c10Head{
		cfg: r.Intn(len(c10Configs), "config"), prerot: r.Intn(3, "pre-rotations"), mode: r.Intn(6, "mode"),
		k: r.Intn(c10MaxK, "k"), kind: r.Intn(3, "kind"), pair: r.Intn(2, "pair?"), k2: r.Intn(c10MaxK, "k2"), kind2: r.Intn(3, "kind2"),
		rate: r.Intn(3, "rate"), overwrite: r.Bool("overwrite"),
	}
}

func c10Prefix(h c10Head) core.Trace {
	b := 0
	if h.overwrite {
		b = 1
	}
	return core.Trace{{L: "config", N: len(c10Configs), V: h.cfg}, {L: "pre-rotations", N: 3, V: h.prerot}, {L: "mode", N: 6, V: h.mode},
		{L: "k", N: c10MaxK, V: h.k}, {L: "kind", N: 3, V: h.kind}, {L: "pair?", N: 2, V: h.pair}, {L: "k2", N: c10MaxK, V: h.k2}, {L: "kind2", N: 3, V: h.kind2},
		{L: "rate", N: 3, V: h.rate}, {L: "overwrite", N: 2, V: b}}
}

// c10Calls runs the fault-free rotation of a configuration and returns its call count.
func c10Calls(cfg, prerot int) int {
	c := core.Lookup("C10")
	r := core.ExecTrace(c, "quick", -1, 0, c10Prefix(c10Head{cfg: cfg, prerot: prerot, mode: 0}), nil, nil)
	if r.HarnessErr != "" || r.Viol != nil {
		// The sweep still covers a generous range; the batch itself will report the trouble.
		return 48
	}
	return r.Probes["ncalls"]
}

func c10Plans(tier string) []core.Trace {
	var out []core.Trace
	prerots := []int{0}
	if tier == "thorough" {
		prerots = []int{0, 1, 2}
	}
	for cfg := range c10Configs {
		for _, pr := range prerots {
			n := c10Calls(cfg, pr)
			out = append(out, c10Prefix(c10Head{cfg: cfg, prerot: pr, mode: 0})) // the fault-free run itself
			if tier == "thorough" && pr == 0 {
				// sampled pairs of faults: every k1 with a second fault a fixed few calls later
				for k1 := 0; k1 < n; k1++ {
					for _, gap := range []int{1, 3, 7} {
						if k2 := k1 + gap; k2 < n+8 {
							kinds := (k1 + gap) % 3
							out = append(out, c10Prefix(c10Head{cfg: cfg, prerot: pr, mode: 1, k: k1, kind: kinds, pair: 1, k2: k2, kind2: (kinds + 1) % 2}))
						}
					}
				}
			}
			for k := 0; k < n; k++ {
				for kind := 0; kind < 3; kind++ {
					if kind == 2 && c10Configs[cfg].CA == "memca" {
						continue
					}
					out = append(out, c10Prefix(c10Head{cfg: cfg, prerot: pr, mode: 1, k: k, kind: kind}))
				}
			}
		}
	}
	return out
}

func genericSite(s string) string {
	if i := strings.IndexByte(s, '('); i >= 0 {
		return s[:i]
	}
	return s
}

func runC10(r *core.Run) {
	h := drawC10Head(r)
	cfg := c10Configs[h.cfg]
	plan := seams.NewPlanNone(r)
	a := NewAuthority(r, cfg, plan)
	a.Decorate = true
	if err, _ := a.Bootstrap(BootArgs{}); err != nil {
		r.HarnessErr = fmt.Sprintf("fault-free bootstrap failed (%s): %v", cfg, err)
		return
	}
	for i := 0; i < h.prerot; i++ {
		a.Now = a.Now.Add(30 * 24 * time.Hour)
		if err, _ := a.Rotate(RotArgs{}); err != nil {
			r.HarnessErr = fmt.Sprintf("fault-free pre-rotation failed (%s): %v", cfg, err)
			return
		}
	}
	// (through freshly created objects: the probe must not warm up whatever a long-lived authority's
	// own objects remember — the rotation under test is the first thing they do after bootstrap)
	pre := a.CheckDurableHealth(a.Now)
	if !pre.Healthy() {
		r.HarnessErr = fmt.Sprintf("authority unhealthy before the rotation under test (%s): %s", cfg, pre)
		return
	}
	oldPrimary := pre.Primary

	// The rotation under test.
	crashOK := cfg.CA != "memca"
	conv := func(kind int) seams.Outcome {
		o := c10Kinds[kind]
		if o == seams.CrashAfter && !crashOK {
			return seams.ErrAfter
		}
		return o
	}
	if h.mode >= 4 {
		runC10Chain(r, a, cfg, plan, h, oldPrimary, crashOK)
		return
	}
	switch h.mode {
	case 1:
		plan.Mode, plan.K, plan.Kind = 1, h.k, conv(h.kind)
		if h.pair == 1 {
			plan.K2, plan.Kind2 = h.k2, conv(h.kind2)
		}
	case 2, 3:
		plan.Mode, plan.RatePct = 2, []int{1, 5, 20}[h.rate]
		plan.Kinds = []seams.Outcome{seams.ErrBefore, seams.ErrAfter}
		if crashOK {
			plan.Kinds = append(plan.Kinds, seams.CrashAfter)
		}
		if h.mode == 3 {
			plan.Max = 2
		}
		// "or is interrupted": the caller gives up at one of the calls (the command's context is
		// cancelled there; steps that do not look at the context go on)
		if r.Chance(35, "caller-cancels?") {
			plan.CancelArmed, plan.CancelAt = true, plan.N+r.Intn(14, "cancel-at-call") // counted from the rotation's first call
		}
	}
	a.Now = a.Now.Add(24 * time.Hour)
	// (localkm) the file the new key version would be saved in cannot be written: something else
	// sits at its path. The operator may have asked to keep going over recoverable errors.
	obstacle, kg := "", false
	if cfg.KM == "localkm" && r.Chance(20, "key-file-unwritable?") {
		next := oldPrimary + "_1"
		if i := strings.LastIndexByte(oldPrimary, '_'); i > 0 {
			if n, err := strconv.Atoi(oldPrimary[i+1:]); err == nil {
				next = fmt.Sprintf("%s_%d", oldPrimary[:i], n+1)
			}
		}
		obstacle = filepath.Join(a.Dir, "keys", next+".pem")
		if err := os.Mkdir(obstacle, 0o755); err != nil {
			obstacle = ""
		} else {
			kg = r.Bool("keep-going-over-it")
			r.Fault("key-file-unwritable", "%s keep_going=%v", next, kg)
		}
	}
	rotErr, crashed := a.Rotate(RotArgs{Flags: Flags{Overwrite: h.overwrite, KeepGoing: kg}})
	plan.Mode = 0
	r.Probes["ncalls"] = plan.N
	fired := plan.Fired
	if obstacle != "" {
		os.Remove(obstacle) // the fault is over
		fired++
	}
	firstSite := "fault-free"
	for _, l := range plan.Sites {
		_ = l
	}
	if fired > 0 {
		firstSite = r.FirstFaultSite()
	}
	if fired > 0 && rotErr != nil {
		r.Probe("rotation-failed-under-fault")
	}
	if fired > 0 && rotErr == nil {
		r.Probe("rotation-succeeded-despite-fault")
	}
	if crashed {
		r.Probe("crashed")
	}
	if fired == 0 && rotErr != nil {
		r.HarnessErr = fmt.Sprintf("fault-free rotation failed (%s): %v", cfg, rotErr)
		return
	}
	r.Eval(r.Fingerprint(), fired > 0)

	// (4) ordering: the old key is destroyed only after the mutation was made durable.
	for _, d := range a.Destroys {
		if d.Name == oldPrimary && !d.AfterFinalizeOK {
			r.Fail("destroy-before-durable", "rotate.Key", "%s: DestroyKeyVersion(%q) was called before the certificate authority's Finalize returned success (fault: %s)", cfg, d.Name, firstSite)
		}
	}
	// The outage may outlast the rotation: a signing request reaches the long-lived authority while
	// the store still refuses calls. The request may fail; once the store is back, health is judged
	// as always.
	if a.Persist && fired > 0 && !crashed && r.Chance(40, "outage-outlasts-rotation?") {
		plan.SitePrefix, plan.SiteLeft = "disk.", 1+r.Intn(2, "outage-calls")
		plan.Active = true
		during := a.CheckHealth(a.Now)
		plan.Active = false
		r.Eventf("signing request during the outage: healthy=%v (refusals left %d)", during.Healthy(), plan.SiteLeft)
		plan.SitePrefix, plan.SiteLeft = "", 0
		r.Probe("signing-request-during-outage")
	}
	// The operator's first reaction to a failed rotation: the very same command line again (same
	// flags, same --timestamp), this time without a fault. It may be refused (leftovers, no
	// --overwrite); whatever it does, the recorded primary stays a live, certified key.
	if fired > 0 && rotErr != nil && r.Chance(30, "rerun-same-command?") {
		err2, _ := a.Rotate(RotArgs{Flags: Flags{Overwrite: h.overwrite, KeepGoing: kg}})
		r.Eventf("the same command again, fault-free -> %s", errClass(err2, false))
		r.Probe("same-command-rerun")
		if err2 == nil {
			r.Probe("same-command-rerun-succeeded")
		}
	}
	// (1)-(3) health as a fresh process sees it.
	c10Health(r, a, cfg, "after the faulted rotation", firstSite, "")
	// (5) bounded liveness once faults stop: one fault-free rotation allowed to overwrite.
	a.Now = a.Now.Add(24 * time.Hour)
	// (some operators keep --keep_going on every command line; with --overwrite present it must
	// not hold leftovers in place)
	recKG := r.Chance(25, "recovery-also-keep-going?")
	if err, _ := a.Rotate(RotArgs{Flags: Flags{Overwrite: true, KeepGoing: recKG}}); err != nil {
		r.Fail("recovery-rotation-fails", firstSite, "%s: after a rotation hit by %s, a fault-free `rotate --overwrite` fails: %v", cfg, firstSite, err)
	}
	c10Health(r, a, cfg, "after the recovery rotation", firstSite, "recovery:")
	r.State(fmt.Sprintf("%s|%s|err=%v|crash=%v", cfg, firstSite, rotErr != nil, crashed))
	if r.Sample == nil {
		r.Sample = map[string]any{"config": cfg.String(), "pre_rotations": h.prerot, "fault": firstSite, "calls_in_rotation": plan.N,
			"rotation_result": errClass(rotErr, crashed), "sites": plan.Sites}
	}
}

// runC10Chain (random runs only): several rotations in a row, each under its own random fault plan
// and with a drawn --overwrite, WITHOUT a recovery in between — a fault meets the leftovers of an
// earlier failed attempt (orphan key versions, unlisted certificate objects, a crashed process).
// After every rotation the same health and ordering checks apply; at the end the fault-free
// recovery rotation must succeed.
func runC10Chain(r *core.Run, a *Authority, cfg Config, plan *seams.FaultPlan, h c10Head, oldPrimary string, crashOK bool) {
	steps := 2 + r.Intn(3, "chain-steps")
	firstSite := "fault-free"
	total := 0
	var shape []string
	for i := 0; i < steps; i++ {
		plan.Mode, plan.RatePct, plan.Max, plan.Fired = 2, []int{2, 8, 25}[r.Intn(3, "chain-rate")], 2, 0
		plan.Kinds = []seams.Outcome{seams.ErrBefore, seams.ErrAfter}
		if crashOK {
			plan.Kinds = append(plan.Kinds, seams.CrashAfter)
		}
		ow := r.Bool("chain-overwrite")
		kg := r.Chance(30, "chain-keep-going")
		ra := RotArgs{Flags: Flags{Overwrite: ow, KeepGoing: kg}}
		// sometimes the operator overrides the serial with the CURRENT primary's (same common name):
		// the new certificate then derives the object name of the live one. Refusing is fine,
		// damaging the live certificate is not.
		serialKind := "d"
		if r.Chance(20, "chain-colliding-serial") {
			if hh := a.CheckHealth(a.Now); hh.Cert != nil {
				if z := subjectSerial(hh.Cert); z != nil && z.IsInt64() {
					ra.SerialOverride, serialKind = z.Int64(), "c"
				}
			}
		}
		a.Now = a.Now.Add(24 * time.Hour)
		rotErr, crashed := a.Rotate(ra)
		plan.Mode = 0
		fired := plan.Fired
		total += fired
		site := "fault-free"
		if fired > 0 {
			site = r.FirstFaultSite()
			if firstSite == "fault-free" {
				firstSite = site
			}
		}
		shape = append(shape, fmt.Sprintf("rot(ow=%v,kg=%v,serial=%s)->%s", ow, kg, serialKind, errClass(rotErr, crashed)))
		when := fmt.Sprintf("after rotation %d of a chain [%s]", i+1, strings.Join(shape, " "))
		for _, d := range a.Destroys {
			if d.Name == oldPrimary && !d.AfterFinalizeOK {
				r.Fail("destroy-before-durable", "rotate.Key/chain", "%s %s: DestroyKeyVersion(%q) was called before the certificate authority's Finalize returned success (fault: %s)", cfg, when, d.Name, site)
			}
		}
		c10Health(r, a, cfg, when, firstSite, "chain:")
		if hh := a.CheckHealth(a.Now); hh.Primary != "" {
			oldPrimary = hh.Primary
		}
	}
	r.Probe("chain")
	if total > 1 {
		r.Probe("chain-with-several-faulted-rotations")
	}
	r.Eval(r.Fingerprint(), total > 0)
	a.Now = a.Now.Add(24 * time.Hour)
	if err, _ := a.Rotate(RotArgs{Flags: Flags{Overwrite: true}}); err != nil {
		r.Fail("recovery-rotation-fails", "chain:"+firstSite, "%s: after the chain [%s] (first fault %s), a fault-free `rotate --overwrite` fails: %v", cfg, strings.Join(shape, " "), firstSite, err)
	}
	c10Health(r, a, cfg, "after the recovery rotation of a chain", firstSite, "chain-recovery:")
	r.State(fmt.Sprintf("%s|chain|%s", cfg, strings.Join(shape, ",")))
	if r.Sample == nil {
		r.Sample = map[string]any{"config": cfg.String(), "chain": shape, "first_fault": firstSite}
	}
}

func c10Health(r *core.Run, a *Authority, cfg Config, when, site, keyPrefix string) {
	h := a.CheckHealth(a.Now)
	r.Eventf("health %s: healthy=%v primary=%s", when, h.Healthy(), h.Primary)
	if a.Persist && h.Healthy() {
		// A long-lived process answers from its own objects; "recorded" in the property is what the
		// store holds, which is what a process started now would read.
		when += " (as read by a newly started process)"
		h = a.CheckDurableHealth(a.Now)
		r.Eventf("health %s: healthy=%v primary=%s", when, h.Healthy(), h.Primary)
	}
	switch {
	case h.Healthy():
		return
	case h.PrimaryErr != nil:
		r.Fail("cannot-endorse-after-failed-rotation", keyPrefix+site, "%s %s (fault %s): the authority cannot tell its primary key: %v", cfg, when, site, h.PrimaryErr)
	case !h.Live:
		r.Fail("primary-not-live", keyPrefix+site, "%s %s (fault %s): recorded primary %q is not a live key: %s", cfg, when, site, h.Primary, h)
	case h.CertErr != nil || !h.CertKeyOK || !h.UnderRoot:
		r.Fail("primary-uncertified", keyPrefix+site, "%s %s (fault %s): recorded primary %q has no valid certificate: %s", cfg, when, site, h.Primary, h)
	default:
		r.Fail("cannot-endorse-after-failed-rotation", keyPrefix+site, "%s %s (fault %s): sign+verify probe fails: %s", cfg, when, site, h)
	}
}
