package worlda

import (
	"context"
	"crypto"
	"crypto/x509"

	"github.com/google/gce-tcb-verifier/keys"
	styp "github.com/google/gce-tcb-verifier/sign/types"

	"verifsim/seams"
)

// faultyManager decorates keys.ManagerInterface with the fault plan.
type faultyManager struct {
	in   keys.ManagerInterface
	plan *seams.FaultPlan
	a    *Authority
}

func (m *faultyManager) str(site string, mutating bool, f func() (string, error)) (string, error) {
	switch m.plan.Next(site, mutating) {
	case seams.ErrBefore:
		return "", seams.Err(site)
	case seams.ErrAfter:
		if _, err := f(); err != nil {
			return "", err
		}
		return "", seams.Err(site)
	case seams.CrashAfter:
		f()
		panic(seams.Crash{At: site})
	}
	return f()
}

func (m *faultyManager) CreateFirstSigningKey(ctx context.Context) (string, error) {
	return m.str("km.CreateFirstSigningKey", true, func() (string, error) { return m.in.CreateFirstSigningKey(ctx) })
}

func (m *faultyManager) CreateNewSigningKeyVersion(ctx context.Context) (string, error) {
	return m.str("km.CreateNewSigningKeyVersion", true, func() (string, error) { return m.in.CreateNewSigningKeyVersion(ctx) })
}

func (m *faultyManager) CreateNewRootKey(ctx context.Context) (string, error) {
	return m.str("km.CreateNewRootKey", true, func() (string, error) { return m.in.CreateNewRootKey(ctx) })
}

func (m *faultyManager) CertificateTemplate(ctx context.Context, issuer *x509.Certificate, pub any) (*x509.Certificate, error) {
	site := "km.CertificateTemplate"
	switch m.plan.Next(site, false) {
	case seams.ErrBefore:
		return nil, seams.Err(site)
	case seams.CrashAfter:
		panic(seams.Crash{At: site})
	}
	return m.in.CertificateTemplate(ctx, issuer, pub)
}

func (m *faultyManager) DestroyKeyVersion(ctx context.Context, name string) error {
	m.a.Destroys = append(m.a.Destroys, DestroyRec{Name: name, AfterFinalizeOK: m.a.FinalizeOK})
	return m.plan.Guard("km.DestroyKeyVersion("+name+")", true, func() error { return m.in.DestroyKeyVersion(ctx, name) })
}

func (m *faultyManager) Wipeout(ctx context.Context) error {
	return m.plan.Guard("km.Wipeout", true, func() error { return m.in.Wipeout(ctx) })
}

// faultySigner decorates styp.Signer.
type faultySigner struct {
	in   styp.Signer
	plan *seams.FaultPlan
}

func (s *faultySigner) PublicKey(ctx context.Context, name string) ([]byte, error) {
	site := "signer.PublicKey(" + name + ")"
	switch s.plan.Next(site, false) {
	case seams.ErrBefore:
		return nil, seams.Err(site)
	case seams.CrashAfter:
		panic(seams.Crash{At: site})
	}
	return s.in.PublicKey(ctx, name)
}

func (s *faultySigner) Sign(ctx context.Context, name string, d styp.Digest, opts crypto.SignerOpts) ([]byte, error) {
	site := "signer.Sign(" + name + ")"
	switch s.plan.Next(site, false) {
	case seams.ErrBefore:
		return nil, seams.Err(site)
	case seams.CrashAfter:
		panic(seams.Crash{At: site})
	}
	return s.in.Sign(ctx, name, d, opts)
}

// faultyCA decorates styp.CertificateAuthority. Mutations are passed through untouched: they are
// in-memory values until Finalize.
type faultyCA struct {
	in   styp.CertificateAuthority
	plan *seams.FaultPlan
	a    *Authority
}

func (c *faultyCA) bytesCall(site string, f func() ([]byte, error)) ([]byte, error) {
	switch c.plan.Next(site, false) {
	case seams.ErrBefore:
		return nil, seams.Err(site)
	case seams.CrashAfter:
		panic(seams.Crash{At: site})
	}
	return f()
}

func (c *faultyCA) strCall(site string, f func() (string, error)) (string, error) {
	switch c.plan.Next(site, false) {
	case seams.ErrBefore:
		return "", seams.Err(site)
	case seams.CrashAfter:
		panic(seams.Crash{At: site})
	}
	return f()
}

func (c *faultyCA) Certificate(ctx context.Context, name string) ([]byte, error) {
	return c.bytesCall("ca.Certificate("+name+")", func() ([]byte, error) { return c.in.Certificate(ctx, name) })
}

func (c *faultyCA) CABundle(ctx context.Context, name string) ([]byte, error) {
	return c.bytesCall("ca.CABundle("+name+")", func() ([]byte, error) { return c.in.CABundle(ctx, name) })
}

func (c *faultyCA) PrimaryRootKeyVersion(ctx context.Context) (string, error) {
	return c.strCall("ca.PrimaryRootKeyVersion", func() (string, error) { return c.in.PrimaryRootKeyVersion(ctx) })
}

func (c *faultyCA) PrimarySigningKeyVersion(ctx context.Context) (string, error) {
	return c.strCall("ca.PrimarySigningKeyVersion", func() (string, error) { return c.in.PrimarySigningKeyVersion(ctx) })
}

func (c *faultyCA) NewMutation() styp.CertificateAuthorityMutation { return c.in.NewMutation() }

func (c *faultyCA) Finalize(ctx context.Context, m styp.CertificateAuthorityMutation) error {
	return c.plan.Guard("ca.Finalize", true, func() error {
		err := c.in.Finalize(ctx, m)
		if err == nil {
			c.a.FinalizeOK = true
		}
		return err
	})
}

func (c *faultyCA) PrepareResources(ctx context.Context) error {
	return c.plan.Guard("ca.PrepareResources", true, func() error { return c.in.PrepareResources(ctx) })
}

func (c *faultyCA) Wipeout(ctx context.Context) error {
	return c.plan.Guard("ca.Wipeout", true, func() error { return c.in.Wipeout(ctx) })
}
