package worlda

import (
	"bytes"
	"crypto/x509"
	"fmt"
	"github.com/google/gce-tcb-verifier/sign/gcsca"
	"math/big"
	"strings"
	"time"

	styp "github.com/google/gce-tcb-verifier/sign/types"

	"verifsim/core"
	"verifsim/refv"
	"verifsim/seams"
)

var c12Configs = []Config{
	{KM: "memkm", CA: "gcsca", ViaCLI: true},
	{KM: "memkm", CA: "memca", ViaCLI: true},
	{KM: "localkm", CA: "localca", ViaCLI: true},
	{KM: "localkm", CA: "gcsca", ViaCLI: true},
	{KM: "localkm", CA: "memca", ViaCLI: true},
	{KM: "memkm", CA: "localca", ViaCLI: true},
	{KM: "gcpkms", CA: "gcsca", ViaCLI: true},
	{KM: "gcpkms", CA: "memca", ViaCLI: true},
	// one long-lived process serving every command (library calls)
	{KM: "memkm", CA: "gcsca", LongLived: true},
	{KM: "gcpkms", CA: "gcsca", LongLived: true},
	{KM: "memkm", CA: "memca", LongLived: true},
}

func init() {
	core.Register(&core.Check{
		ID: "C12", World: "A (authority lifecycle)", Level: "exploration",
		Rule: "one evaluation = one seeded command history (<= 8 quick / 12 thorough commands over {bootstrap, rotate, wipeout ca|keys|all}) executed through the real cobra commands, one fresh app per command (or, for three configurations, through the library calls of one long-lived process), with drawn common names, serials, overrides (absent/fresh/colliding), timestamps (forward and backward inside the root's validity), --overwrite, --keep_going, over each shipped key manager x certificate authority; " +
			"all chain-of-trust invariants are evaluated after EVERY command on state read back through a fresh authority; non-trivial = at least 2 state-changing commands succeeded; distinct by abstract-state sequence",
		Assumptions: []string{
			"an epoch (for name reuse and 'only the current primary can sign') starts at a wipeout of any kind or at a successful bootstrap; a re-bootstrap needs --overwrite, which is the operator's permission to replace existing keys",
			"'only the current primary signing key can sign' is evaluated over key versions that have been recorded as primary in the epoch; leftovers of legitimately failed commands are not counted",
			"profile checks apply to the certificate of every key at the moment a command makes it primary, and to the current primary after every later command",
			"memca's certificate map entries count as certificate objects; memca has no overwrite gate, so a bootstrap after a key wipeout replaces them (known finding, keyed memca-after-key-wipeout)",
		},
		Components: []core.Component{
			{Name: "cmd bootstrap/rotate/wipeout (cobra), rotate.*", Kind: "real"},
			{Name: "sign/gcsca, sign/memca, localca, memkm, localkm, nonprod certs", Kind: "real", Note: "localkm/localca on a per-run scratch directory"},
			{Name: "object store for gcsca", Kind: "stub", Note: "SimDisk, fault-free in this check"},
			{Name: "clock", Kind: "stub", Note: "--timestamp from the simulated clock"},
		},
		Budget: core.StdBudget(1600, 100*time.Second, 200000, 9*time.Minute),
		Body:   runC12,
	})
}

type c12Model struct {
	everPrimary map[string][]byte // name -> DER of the certificate it had when primary (this epoch)
	allNames    map[string]bool   // every key name ever seen (all epochs)
	primary     string
	prevSerial  *big.Int
	wantSerial  *big.Int // the serial the rotation in hand names on its command line (nil: none)
	stamps      map[int64]bool // --timestamp of every command so far
	preCerts    map[string][]byte
	staleName   string
	staleDER    []byte
	staleShape  string
	keysWiped   bool // a `wipeout keys|all` succeeded since the last successful bootstrap
	// excused: former primaries whose destruction the key service refused during a rotation that
	// reported the failure. The operator was told; nothing in the command set retries it.
	excused map[string]bool
	// refusedNow: the command being checked did everything but its last step (the key service
	// refused the destroy), so its effects on the authority are those of a completed command.
	refusedNow bool
	// namesBefore: the key names the key service knew before the command being checked
	namesBefore map[string]bool
	// repeat: the arguments of a rotation whose manifest write was just refused
	repeat *RotArgs
}

// hugeSerial draws a serial number beyond 64 bits (legal: serials are arbitrary-precision).
func hugeSerial(r *core.Run) *big.Int {
	z := new(big.Int).Lsh(big.NewInt(1), uint(64+r.Intn(24, "serial-bits")))
	return z.Add(z, big.NewInt(int64(40+r.Intn(10, "serial-low"))))
}

func subjectSerial(c *x509.Certificate) *big.Int {
	z, ok := new(big.Int).SetString(c.Subject.SerialNumber, 10)
	if !ok {
		return nil
	}
	return z
}

func runC12(r *core.Run) {
	cfg := c12Configs[r.Intn(len(c12Configs), "config")]
	maxLen := 8
	if r.Tier == "thorough" {
		maxLen = 12
	}
	n := 2 + r.Intn(maxLen-1, "history-length")
	a := NewAuthority(r, cfg, seams.NewPlanNone(r))
	// the operator may write --timestamp with a numeric zone offset: the same instant
	if r.Chance(30, "operator-time-zone?") {
		off := []int{-8, -3, 2, 5, 9}[r.Intn(5, "zone")]
		a.Zone = time.FixedZone(fmt.Sprintf("UTC%+d", off), off*3600+[]int{0, 1800}[r.Intn(2, "half-hour")])
	}
	m := &c12Model{everPrimary: map[string][]byte{}, allNames: map[string]bool{}, stamps: map[int64]bool{}, excused: map[string]bool{}}
	rootStart := time.Time{}
	var hist []string
	changes := 0
	stateSeq := ""
	for step := 0; step < n; step++ {
		// clock: mostly forward, sometimes backward, never before the root's NotBefore
		delta := time.Duration(r.Intn(600, "advance-days")) * 24 * time.Hour
		if r.Chance(12, "clock-horizon?") && !rootStart.IsZero() {
			// deliberate jump towards the end of the root's validity (still inside it)
			rootEnd := rootStart.Add(time.Duration(styp.RootValidDays) * 24 * time.Hour)
			back := time.Duration(1+r.Intn(6*366, "days-before-root-expiry")) * 24 * time.Hour
			if t := rootEnd.Add(-back); t.After(rootStart) {
				a.Now = t
				r.Probe("clock-near-root-expiry")
			}
		} else if r.Chance(15, "clock-backward?") && !rootStart.IsZero() {
			back := a.Now.Add(-delta / 4)
			if back.After(rootStart) {
				a.Now = back
			}
		} else {
			a.Now = a.Now.Add(delta + time.Duration(r.Intn(86400, "advance-seconds"))*time.Second)
		}
		r.Advance(delta)
		before := a.CertObjects()
		m.namesBefore = map[string]bool{}
		for _, k := range a.KeyNames() {
			m.namesBefore[k] = true
		}
		m.stamps[a.Now.Unix()] = true
		// certificates the authority serves per known key name before the command (to recognise a
		// command that "succeeds" while keeping a stale certificate)
		m.preCerts = map[string][]byte{}
		if pv, err := a.View(); err == nil {
			for _, name := range core.SortedKeys(m.allNames) {
				if der, err := pv.CA.Certificate(pv.Ctx, name); err == nil {
					m.preCerts[name] = der
				}
			}
		}
		f := Flags{Overwrite: r.Chance(35, "overwrite?"), KeepGoing: r.Chance(20, "keep-going?")}
		opKind := r.Intn(10, "op")
		if step == 0 && r.Chance(85, "bootstrap-first?") {
			opKind = 0
		}
		// after a rotation whose manifest write was refused, the operator most often repeats it
		repeat := m.repeat
		m.repeat = nil
		if repeat != nil && r.Chance(60, "repeat-the-refused-rotation?") {
			opKind = 2
		} else {
			repeat = nil
		}
		var err error
		var desc string
		var overridden bool
		var made string // "boot", "rot" or ""
		switch {
		case opKind <= 1: // bootstrap
			b := BootArgs{Flags: f, RootCN: []string{"", "root-b"}[r.Intn(2, "root-cn")], SignCN: cnPool[r.Intn(len(cnPool), "sign-cn")]}
			if r.Chance(30, "root-serial?") {
				b.RootSerial = int64(5 + r.Intn(3, "root-serial"))
			}
			if r.Chance(30, "init-serial?") {
				b.SignSerial = int64(20 + r.Intn(3, "init-serial"))
			}
			if r.Chance(8, "huge-init-serial?") {
				b.SignSerialBig = hugeSerial(r)
			}
			if r.Chance(8, "twin-subject?") {
				// legal, if odd: root and signing key are given the same common name AND serial, so
				// their subject names are equal; the signing certificate is still a leaf
				b.RootCN, b.SignCN, b.RootSerial, b.SignSerial, b.SignSerialBig = "GCE-cc-tcb", "GCE-cc-tcb", 7, 7, nil
				r.Probe("twin-subject-bootstrap")
			}
			desc = fmt.Sprintf("bootstrap(ow=%v,kg=%v,rcn=%q,scn=%q,rs=%d,ss=%d)", f.Overwrite, f.KeepGoing, b.RootCN, b.SignCN, b.RootSerial, b.SignSerial)
			// the store cannot answer "does this object exist?" for a while (reads and writes work)
			existsRefused := cfg.CA == "gcsca" && step > 0 && r.Chance(8, "existence-query-refused?")
			refusals := 0
			if existsRefused {
				refusals = 1 + r.Intn(4, "refused-queries")
				a.Plan.SitePrefix, a.Plan.SiteLeft = "disk.Exists(", refusals
				desc += "+existence-query-refused"
			}
			err, _ = a.Bootstrap(b)
			if existsRefused && a.Plan.SiteLeft < refusals && err != nil {
				// the command was cut short by the injected refusal and said so: the keys it had made
				// or replaced by then are its leftovers, not held against later commands
				for _, k := range a.KeyNames() {
					m.excused[k] = true
				}
				r.Probe("bootstrap-cut-short-by-refused-query")
			}
			a.Plan.SitePrefix, a.Plan.SiteLeft = "", 0
			made = "boot"
		case opKind <= 6: // rotate
			ra := RotArgs{Flags: f, SignCN: cnPool[r.Intn(len(cnPool), "sign-cn")]}
			switch r.Intn(6, "serial-override") {
			case 0:
				ra.SerialOverride = int64(100 + r.Intn(50, "fresh-serial"))
			case 1:
				// colliding with an existing signing certificate's serial
				if m.prevSerial != nil {
					ra.SerialOverride = m.prevSerial.Int64()
				}
			}
			if r.Chance(6, "huge-serial-override?") {
				ra.SerialBig = hugeSerial(r)
			}
			if repeat != nil {
				ra.SignCN, ra.SerialOverride, ra.SerialBig = repeat.SignCN, repeat.SerialOverride, repeat.SerialBig
				r.Probe("refused-rotation-repeated")
			}
			overridden = ra.SerialOverride != 0 || ra.SerialBig != nil
			m.wantSerial = nil
			if ra.SerialBig != nil {
				m.wantSerial = ra.SerialBig
			} else if ra.SerialOverride != 0 {
				m.wantSerial = big.NewInt(ra.SerialOverride)
			}
			desc = fmt.Sprintf("rotate(ow=%v,kg=%v,scn=%q,serial=%d,big=%v)", f.Overwrite, f.KeepGoing, ra.SignCN, ra.SerialOverride, ra.SerialBig)
			// the store refuses the manifest write of this rotation: its certificate object stays
			// behind unlisted, and a later rotation derives the same object name
			manifestRefused := cfg.CA == "gcsca" && r.Chance(8, "manifest-write-refused?")
			if manifestRefused {
				a.Plan.SitePrefix, a.Plan.SiteLeft = "disk.Close("+gcsca.ManifestObjectName, 1
				desc += "+manifest-write-refused"
			}
			refuse := !manifestRefused && r.Chance(10, "old-key-destroy-refused?")
			if refuse {
				// the key service refuses to destroy the old key version: the last step of a rotation
				a.Plan.SitePrefix, a.Plan.SiteLeft, a.Decorate = "km.DestroyKeyVersion", 1, true
				desc += "+destroy-refused"
			}
			err, _ = a.Rotate(ra)
			m.refusedNow = refuse && a.Plan.SiteLeft == 0
			if m.refusedNow && err != nil && m.primary != "" {
				m.excused[m.primary] = true
				r.Probe("rotation-reported-refused-destroy")
			}
			if manifestRefused && err != nil {
				kept := ra
				m.repeat = &kept
			}
			a.Plan.SitePrefix, a.Plan.SiteLeft, a.Decorate = "", 0, false
			made = "rot"
		default:
			what := []string{"ca", "keys", "all"}[opKind-7]
			desc = "wipeout(" + what + ")"
			if a.Disk != nil && cfg.CA == "gcsca" && what != "keys" && r.Chance(20, "storage-wipeout-refused?") {
				// the one fault of this check: the store refuses the wipeout. A wipeout that then
				// reports success has to have left nothing usable all the same.
				a.Disk.WipeoutRefused = true
				desc = "wipeout(" + what + ", storage refuses)"
			}
			err, _ = a.Wipeout(what, f)
			if a.Disk != nil {
				a.Disk.WipeoutRefused = false
			}
			if err == nil {
				made = "wipe:" + what
			}
		}
		hist = append(hist, fmt.Sprintf("%s->%s", desc, errClass(err, false)))
		if err == nil {
			changes++
		}
		c12Check(r, a, m, cfg, made, err == nil, overridden, f, before, desc, &rootStart)
		m.refusedNow = false
		stateSeq += fmt.Sprintf("%s:%s:%d|", made, errClass(err, false), len(m.everPrimary))
		r.State(stateSeq)
	}
	r.Eval(stateSeq+cfg.String(), changes >= 2)
	r.Sample = map[string]any{"config": cfg.String(), "history": hist}
}

func c12Check(r *core.Run, a *Authority, m *c12Model, cfg Config, made string, ok, overridden bool, f Flags, before map[string][]byte, desc string, rootStart *time.Time) {
	where := fmt.Sprintf("%s after %s", cfg, desc)
	for _, k := range a.KeyNames() {
		if !m.allNames[k] && !ok {
			// a key that appears during a command that reported failure is that command's leftover
			// (the operator was told); it is not held against the commands that follow
			m.excused[k] = true
		}
		m.allNames[k] = true
	}
	// no-clobber without --overwrite
	// memca is an in-memory double without stored objects or an overwrite gate; "certificate
	// object" is read as an object of a storage-backed authority.
	if !f.Overwrite {
		after := a.CertObjects()
		clobberKey := made
		if cfg.CA == "memca" {
			// memca has no overwrite gate of its own: the only guard is the key manager's
			// "key exists" check, which a key wipeout disarms (known finding).
			clobberKey = "memca/" + made
			if m.keysWiped {
				clobberKey = "memca-after-key-wipeout/" + made
			}
		}
		for _, name := range core.SortedKeys(before) {
			was := before[name]
			now, still := after[name]
			if strings.HasPrefix(made, "wipe") && ok {
				continue
			}
			if still && !bytes.Equal(was, now) {
				key := clobberKey
				if cfg.CA == "memca" && cfg.KM == "gcpkms" && f.KeepGoing && made == "boot" {
					// gcpkms lets a bootstrap with --keep_going re-use the existing key versions (an
					// idempotent re-run) and re-certifies them; memca, having no overwrite gate,
					// replaces their certificates (gcsca keeps them)
					key = "memca-gcpkms-keep-going-rebootstrap/boot"
				} else if _, thisEpoch := m.everPrimary[name]; cfg.CA == "memca" && !m.keysWiped && !thisEpoch && name != m.primary && name != "root" {
					// a leftover entry of a previous epoch (before the last bootstrap) replaced by a
					// rotation that re-issues the key version name
					key = "memca-stale-entry-replaced/" + made
				}
				r.Fail("object-clobbered", key, "%s: stored certificate object %q changed content although --overwrite was not given", where, name)
			}
		}
	}
	v, err := a.DurableView()
	if err != nil {
		// A key directory that no longer loads, etc.: the authority is unusable, which only
		// wipeout may cause.
		if strings.HasPrefix(made, "wipe") {
			return
		}
		r.Fail("signing-profile", "view", "%s: a fresh process cannot load the authority: %v", where, err)
		return
	}
	// epoch boundaries
	if ok && strings.HasPrefix(made, "wipe") {
		what := strings.TrimPrefix(made, "wipe:")
		// what a newly started process reads, and (long-lived authority) what the running one answers
		views := []*View{v}
		if a.Persist {
			if lv, err := a.View(); err == nil {
				views = append(views, lv)
			}
		}
		for _, v := range views {
			if what != "ca" {
				for _, name := range core.SortedKeys(m.allNames) {
					if v.CanSign(name) {
						r.Fail("usable-after-wipeout", "key:"+what, "%s: key %q still signs after the wipeout", where, name)
					}
				}
			}
			if what != "keys" {
				if p, err := v.CA.PrimarySigningKeyVersion(v.Ctx); err == nil && p != "" {
					r.Fail("usable-after-wipeout", "primary:"+what, "%s: primary signing key %q still recorded after the wipeout", where, p)
				}
				for _, name := range core.SortedKeys(m.allNames) {
					if _, err := v.CA.Certificate(v.Ctx, name); err == nil {
						r.Fail("usable-after-wipeout", "cert:"+what, "%s: certificate of %q still readable after the wipeout", where, name)
					}
				}
				if len(a.CertObjects()) != 0 {
					r.Fail("usable-after-wipeout", "objects:"+what, "%s: %d certificate objects remain after the wipeout", where, len(a.CertObjects()))
				}
			}
		}
		m.everPrimary, m.primary, m.prevSerial = map[string][]byte{}, "", nil
		if what != "ca" {
			m.keysWiped = true
		}
		return
	}
	primary, perr := v.CA.PrimarySigningKeyVersion(v.Ctx)
	if perr != nil || primary == "" {
		return // not bootstrapped (or wiped): nothing recorded to check
	}
	der, cerr := v.CA.Certificate(v.Ctx, primary)
	if cerr != nil {
		// e.g. after `wipeout keys` only: certs remain; or CA wiped. Certificates missing for a
		// recorded primary is C10/C11 territory; here only profile invariants are judged.
		return
	}
	cert, err := x509.ParseCertificate(der)
	if err != nil {
		r.Fail("signing-profile", "unparseable", "%s: primary certificate does not parse: %v", where, err)
		return
	}
	bundle, err := v.CA.CABundle(v.Ctx, primary)
	if err != nil {
		return
	}
	roots, err := refv.ParsePEMCerts(bundle)
	if err != nil {
		r.Fail("root-profile", "unparseable", "%s: stored root does not parse: %v", where, err)
		return
	}
	root := roots[len(roots)-1]
	// History shape of a known finding: a command given --keep_going (and not --overwrite) made a
	// key version primary whose name already had a manifest entry, and kept that stored
	// certificate although the key under that name is a new one.
	shape := ""
	if (ok || m.refusedNow) && (made == "boot" || made == "rot") && f.KeepGoing && !f.Overwrite && primary != m.primary && bytes.Equal(m.preCerts[primary], der) {
		shape = "/keep-going-kept-stale-certificate"
		r.Probe("keep-going-kept-stale-certificate")
		m.staleName, m.staleDER, m.staleShape = primary, der, shape
	} else if primary == m.staleName && bytes.Equal(der, m.staleDER) {
		// the state left behind by that command persists until the primary changes
		shape = m.staleShape
	} else {
		m.staleName, m.staleDER = "", nil
	}
	// Second shape of the same family: a bootstrap given --keep_going (without --overwrite) kept the
	// stored root certificate object although the root key is a new one.
	if cfg.CA != "memca" && made == "boot" && f.KeepGoing && !f.Overwrite {
		if was, had := before[rootPathDefault]; ok && had && bytes.Equal(was, a.CertObjects()[rootPathDefault]) && !refv.CertIssuedBy(cert, root) {
			shape = "/keep-going-kept-stale-root"
			r.Probe("keep-going-kept-stale-root")
			m.staleName, m.staleDER, m.staleShape = primary, der, shape
		}
	}
	if ok && made == "boot" {
		// a successful bootstrap starts a new epoch
		// (keys of earlier epochs that a re-bootstrap leaves alive are not this property's reading
		// of "the current primary": only keys that appear from here on are held against it)
		for n := range m.namesBefore {
			m.excused[n] = true
		}
		m.everPrimary, m.prevSerial = map[string][]byte{}, nil
		m.keysWiped = false
		*rootStart = root.NotBefore
	}
	// root profile
	switch {
	case !refv.CertIssuedBy(root, root):
		r.Fail("root-profile", "not-self-signed", "%s: root certificate is not self-signed", where)
	case !root.IsCA || !root.BasicConstraintsValid:
		r.Fail("root-profile", "not-ca", "%s: root certificate is not a CA certificate", where)
	case root.KeyUsage&x509.KeyUsageCertSign == 0:
		r.Fail("root-profile", "no-certsign", "%s: root certificate lacks certificate-signing usage", where)
	case root.NotAfter.Sub(root.NotBefore) != time.Duration(styp.RootValidDays)*24*time.Hour:
		key := "lifetime"
		if len(m.allNames) > 0 && made == "boot" && f.Overwrite {
			key = "lifetime/rebootstrap-overwrite"
		}
		r.Fail("root-profile", key, "%s: root certificate is valid for %v, documented lifetime is %d days", where, root.NotAfter.Sub(root.NotBefore), styp.RootValidDays)
	}
	// signing profile of the current primary
	switch {
	case cert.IsCA:
		r.Fail("signing-profile", "is-ca", "%s: signing certificate of %q is a CA certificate", where, primary)
	case cert.KeyUsage&x509.KeyUsageDigitalSignature == 0:
		r.Fail("signing-profile", "no-digital-signature", "%s: signing certificate of %q lacks digital-signature usage", where, primary)
	case cert.SignatureAlgorithm != x509.SHA256WithRSAPSS:
		r.Fail("signing-profile", "algorithm", "%s: signing certificate of %q is signed with %v", where, primary, cert.SignatureAlgorithm)
	case !refv.CertIssuedBy(cert, root):
		r.Fail("signing-profile", "not-under-root"+shape, "%s: signing certificate of %q does not verify under the stored root", where, primary)
	case cert.NotAfter.Sub(cert.NotBefore) != time.Duration(styp.SignValidDays)*24*time.Hour:
		r.Fail("signing-profile", "lifetime", "%s: signing certificate of %q is valid for %v, documented lifetime is %d days", where, primary, cert.NotAfter.Sub(cert.NotBefore), styp.SignValidDays)
	}
	ss := subjectSerial(cert)
	if ss == nil || cert.SerialNumber == nil || ss.Cmp(cert.SerialNumber) != 0 {
		r.Fail("cert-serial≠subject-serial", made, "%s: certificate serial %v differs from subject serial %q for %q", where, cert.SerialNumber, cert.Subject.SerialNumber, primary)
	}
	newPrimary := primary != m.primary || (ok && (made == "boot" || made == "rot"))
	if ok && (made == "boot" || made == "rot") {
		// the command just made this key primary: creation-time facts
		// "valid ... from its creation time": NotBefore is the timestamp of the command that created
		// the certificate. With --keep_going a command may legitimately keep a certificate created
		// by an earlier command, so any command timestamp of the history is accepted.
		if !f.KeepGoing && cert.NotBefore.Unix() != a.Now.Unix() {
			// without --keep_going the certificate is this command's own
			r.Fail("signing-profile", "not-before-this-command/"+made, "%s: signing certificate NotBefore %v is not this command's timestamp %v", where, cert.NotBefore.UTC(), a.Now.UTC())
		}
		if !m.stamps[cert.NotBefore.Unix()] {
			r.Fail("signing-profile", "not-before/"+made, "%s: signing certificate NotBefore %v is not the timestamp of any command of the history (this command: %v)", where, cert.NotBefore.UTC(), a.Now.UTC())
		}
		if made == "rot" && overridden && !f.KeepGoing && m.wantSerial != nil && ss != nil && ss.Cmp(m.wantSerial) != 0 {
			// "unless overridden": an override is the serial the new certificate gets (with
			// --keep_going an earlier command's certificate may legitimately be kept instead)
			r.Fail("serial-not-successor", "override-not-honoured"+shape, "%s: the command named serial %v, the new signing certificate has %v", where, m.wantSerial, ss)
		}
		if made == "rot" && !overridden && m.prevSerial != nil && ss != nil {
			want := new(big.Int).Add(m.prevSerial, big.NewInt(1))
			if ss.Cmp(want) != 0 {
				r.Fail("serial-not-successor", "rotate"+shape, "%s: subject serial %v, predecessor had %v", where, ss, m.prevSerial)
			}
		}
	}
	if newPrimary {
		if old, seen := m.everPrimary[primary]; seen && !bytes.Equal(old, der) && primary != m.primary {
			r.Fail("name-reused", "primary"+shape, "%s: key version name %q was primary before in this epoch with another certificate", where, primary)
		}
	}
	m.everPrimary[primary] = der
	m.primary = primary
	if ss != nil {
		m.prevSerial = ss
	}
	// ... and no key the key service knows of, other than the primary and the root key, signs after
	// a command that succeeded (a replaced key kept under another name, say)
	if ok {
		for _, name := range core.SortedKeys(m.allNames) {
			if _, was := m.everPrimary[name]; was || name == primary || m.excused[name] || name == "root" || strings.Contains(name, "/cryptoKeys/root/") {
				continue
			}
			if v.CanSign(name) {
				r.Fail("non-primary-signs", "stray-key/"+made, "%s: key %q, which is neither the primary (%q) nor the root key, can sign", where, name, primary)
			}
		}
	}
	// only the current primary signs, among the keys that have been primary in this epoch
	for _, name := range core.SortedKeys(m.everPrimary) {
		if name != primary && !m.excused[name] && v.CanSign(name) {
			r.Fail("non-primary-signs", made, "%s: former primary %q can still sign (current primary %q)", where, name, primary)
		}
	}
}
