package worlda

import (
	"bytes"
	"crypto"
	"crypto/rsa"
	"crypto/sha256"
	"crypto/x509"
	"fmt"
	"time"

	"github.com/google/gce-tcb-verifier/endorse"
	epb "github.com/google/gce-tcb-verifier/proto/endorsement"
	"github.com/google/gce-tcb-verifier/sign/nonprod"
	styp "github.com/google/gce-tcb-verifier/sign/types"
	"github.com/google/gce-tcb-verifier/verify"
	"google.golang.org/protobuf/proto"

	"verifsim/refv"
)

// Health is the outcome of the "can this authority still endorse" probe, evaluated on a fresh
// fault-free view (what a newly started endorsing process would see).
type Health struct {
	Primary     string
	PrimaryErr  error
	Live        bool  // the key service signs with the recorded primary
	CertErr     error // certificate missing/unparseable
	CertKeyOK   bool  // certificate carries the primary key's public key
	UnderRoot   bool  // certificate verifies under the stored root
	EndorseErr  error // SignDoc failed
	VerifyErr   error // verify.Endorsement rejected the fresh endorsement
	RefOK       bool  // independent reference verifier accepts it
	Endorsement []byte
	Root        *x509.Certificate
	Cert        *x509.Certificate
}

// tinyGolden is a minimal golden measurement with provenance.
func tinyGolden() *epb.VMGoldenMeasurement {
	return &epb.VMGoldenMeasurement{
		Digest: bytes.Repeat([]byte{0xd1}, 48),
		ClSpec: 42,
		SevSnp: &epb.VMSevSnp{Measurements: map[uint32][]byte{1: bytes.Repeat([]byte{0x11}, 48), 2: bytes.Repeat([]byte{0x22}, 48)}},
	}
}

// CheckHealth runs the probe at simulated time now.
func (a *Authority) CheckHealth(now time.Time) *Health { return a.checkHealth(now, false) }

// CheckDurableHealth runs the probe through freshly created component objects (a new process).
func (a *Authority) CheckDurableHealth(now time.Time) *Health { return a.checkHealth(now, true) }

func (a *Authority) checkHealth(now time.Time, fresh bool) *Health {
	h := &Health{}
	v, err := a.view(fresh)
	if err != nil {
		h.PrimaryErr = err
		return h
	}
	h.Primary, h.PrimaryErr = v.CA.PrimarySigningKeyVersion(v.Ctx)
	if h.PrimaryErr != nil {
		return h
	}
	if h.Primary == "" {
		h.PrimaryErr = fmt.Errorf("no primary signing key recorded")
		return h
	}
	probeDigest := sha256.Sum256([]byte("verifsim liveness probe"))
	probeSig, signErr := v.Signer.Sign(v.Ctx, h.Primary, styp.Digest{SHA256: probeDigest[:]}, nonprod.DefaultOpts())
	h.Live = signErr == nil
	der, err := v.CA.Certificate(v.Ctx, h.Primary)
	if err != nil {
		h.CertErr = err
	} else if c, err := x509.ParseCertificate(der); err != nil {
		h.CertErr = err
	} else {
		h.Cert = c
		// The certificate carries the primary key's public key iff a signature made by the key
		// service with that key verifies under the certificate.
		if cp, ok := c.PublicKey.(*rsa.PublicKey); ok && h.Live {
			h.CertKeyOK = rsa.VerifyPSS(cp, crypto.SHA256, probeDigest[:], probeSig, &rsa.PSSOptions{SaltLength: rsa.PSSSaltLengthAuto}) == nil
		}
		if bundle, err := v.CA.CABundle(v.Ctx, h.Primary); err == nil {
			if roots, err := refv.ParsePEMCerts(bundle); err == nil {
				h.Root = roots[len(roots)-1]
				for _, root := range roots {
					if refv.CertIssuedBy(c, root) {
						h.UnderRoot = true
					}
				}
			}
		}
	}
	ctx := endorse.NewContext(v.Ctx, &endorse.Context{Timestamp: now})
	e, err := endorse.SignDoc(ctx, tinyGolden())
	if err != nil {
		h.EndorseErr = err
		return h
	}
	h.Endorsement, _ = proto.Marshal(e)
	if h.Root == nil {
		h.VerifyErr = fmt.Errorf("no stored root certificate to verify under")
		return h
	}
	pool := x509.NewCertPool()
	pool.AddCert(h.Root)
	h.VerifyErr = verify.Endorsement(h.Endorsement, &verify.Options{RootsOfTrust: pool, Now: now})
	h.RefOK = refv.CheckBytes(h.Endorsement, []*x509.Certificate{h.Root}, now).OK()
	return h
}

// Healthy is the conjunction the C10 oracle demands.
func (h *Health) Healthy() bool {
	return h.PrimaryErr == nil && h.Live && h.CertErr == nil && h.CertKeyOK && h.UnderRoot && h.EndorseErr == nil && h.VerifyErr == nil && h.RefOK
}

func (h *Health) String() string {
	return fmt.Sprintf("primary=%q primaryErr=%v live=%v certErr=%v certKeyOK=%v underRoot=%v endorseErr=%v verifyErr=%v refOK=%v",
		h.Primary, h.PrimaryErr, h.Live, h.CertErr, h.CertKeyOK, h.UnderRoot, h.EndorseErr, h.VerifyErr, h.RefOK)
}
