package worlda

import (
	"context"
	"fmt"
	"strings"
	"time"

	"github.com/google/gce-tcb-verifier/cmd/output"
	cpb "github.com/google/gce-tcb-verifier/proto/certificates"
	"github.com/google/gce-tcb-verifier/sign/gcsca"
	"google.golang.org/protobuf/encoding/prototext"

	"verifsim/core"
	"verifsim/refv"
	"verifsim/seams"
)

// common names for signing keys: the default, plain ones, and two with characters a text format has
// to escape (the name ends up in the manifest's object path)
var cnPool = []string{"", "GCE-uefi-signer-b", "signer-c", `GCE "quoted" signer`, `GCE\tcb signer`}

func init() {
	core.Register(&core.Check{
		ID: "C11", World: "A (authority lifecycle)", Level: "fault_enumeration",
		Rule: "one evaluation = one (history, upload order, write-prefix) store state reloaded through a fresh gcsca instance; " +
			"for every operation of a seeded history (first bootstrap of an empty store under BOTH certificate upload orders, then rotations with drawn common names / serial overrides, " +
			"incl. re-runs (plain / --overwrite / --keep_going / both) of a rotation cut short at a drawn prefix, and the same rotation with the commit of its j-th object lost) EVERY prefix of its recorded object writes is enumerated; " +
			"non-trivial = strict non-empty prefix; distinct by (operation kind, upload order, history shape, prefix index)",
		Exhaustive: "per sampled history: all write prefixes x both bootstrap upload orders (histories themselves are sampled)",
		Assumptions: []string{
			"object store is atomic per object: an object becomes visible when its writer's Close succeeds (GCS contract)",
			"re-bootstrap over a populated store and serial overrides colliding with a live certificate object are excluded (destructive operator actions; see DESIGN C11)",
		},
		Components: []core.Component{
			{Name: "rotate.Bootstrap / rotate.Key / cmd bootstrap+rotate", Kind: "real"},
			{Name: "sign/gcsca", Kind: "real", Note: "hook H1 decides upload order"},
			{Name: "testing/nonprod/memkm + sign/nonprod signer", Kind: "real", Note: "hook H3: keys from a fixed pool"},
			{Name: "object store", Kind: "stub", Note: "SimDisk"},
		},
		Budget: core.StdBudget(800, 100*time.Second, 40000, 9*time.Minute),
		Body:   runC11,
	})
}

// storeState describes what a fresh process finds; used as abstract state.
func storeState(d *seams.SimDisk) string {
	return strings.Join(d.Names(bucket), ",")
}

// checkStore is the C11 oracle on one store state.
func checkStore(r *core.Run, d *seams.SimDisk, where string) {
	ctx := output.NewContext(context.Background(), &output.Options{Quiet: true})
	ca := &gcsca.CertificateAuthority{Storage: &seams.SimDisk{R: r, Objects: d.Objects, Buckets: d.Buckets, FailCloseN: -1},
		PrivateBucket: bucket, SigningCertDirInGCS: certDir(r), RootPath: rootPathOf(r)}
	primary, err := ca.PrimarySigningKeyVersion(ctx)
	if err != nil {
		r.Fail("manifest-unparseable", "fresh-authority", "%s: fresh authority cannot read its manifest: %v", where, err)
	}
	man := &cpb.GCECertificateManifest{}
	if raw, ok := d.Get(bucket, gcsca.ManifestObjectName); ok {
		if err := prototext.Unmarshal(raw, man); err != nil {
			r.Fail("manifest-unparseable", "textproto", "%s: manifest does not parse: %v", where, err)
		}
	}
	for _, e := range man.GetEntries() {
		raw, ok := d.Get(bucket, e.GetObjectPath())
		if !ok {
			r.Fail("manifest-dangling-entry", "missing-object", "%s: manifest lists %q -> %q but the object does not exist", where, e.GetKeyVersionName(), e.GetObjectPath())
		}
		if _, err := ParseCert(raw); err != nil {
			r.Fail("manifest-dangling-entry", "unparseable-object", "%s: object %q of key %q is not a certificate: %v", where, e.GetObjectPath(), e.GetKeyVersionName(), err)
		}
	}
	if primary == "" {
		return
	}
	der, err := ca.Certificate(ctx, primary)
	if err != nil {
		r.Fail("primary-without-valid-cert", "no-cert", "%s: primary signing key %q has no loadable certificate: %v", where, primary, err)
	}
	cert, err := ParseCert(der)
	if err != nil {
		r.Fail("primary-without-valid-cert", "no-cert", "%s: primary certificate unparseable: %v", where, err)
	}
	bundle, err := ca.CABundle(ctx, primary)
	if err != nil {
		r.Fail("primary-without-valid-cert", "no-root", "%s: primary %q recorded but the stored root certificate is unreadable: %v", where, primary, err)
	}
	roots, err := refv.ParsePEMCerts(bundle)
	if err != nil {
		r.Fail("primary-without-valid-cert", "no-root", "%s: stored root certificate does not parse: %v", where, err)
	}
	ok := false
	for _, root := range roots {
		if refv.CertIssuedBy(cert, root) {
			ok = true
		}
	}
	if !ok {
		r.Fail("primary-without-valid-cert", "not-under-root", "%s: certificate of primary %q does not verify under the stored root", where, primary)
	}
	if man.GetPrimaryRootKeyVersionName() == "" {
		r.Fail("primary-without-valid-cert", "no-root-name", "%s: primary signing key recorded without a primary root key", where)
	}
}

// checkPrefixes enumerates every prefix of writes on top of pre.
func checkPrefixes(r *core.Run, pre *seams.SimDisk, writes []seams.WriteRec, what, hist string) {
	manifestAt := -1
	for i, w := range writes {
		if w.Op == "put" && w.Object == gcsca.ManifestObjectName {
			if manifestAt < 0 {
				manifestAt = i
			}
		} else if manifestAt >= 0 && w.Op == "put" {
			r.Fail("manifest-written-early", what, "%s: object %q was written after the manifest (write %d of %d)", what, w.Object, i+1, len(writes))
		}
	}
	for p := 0; p <= len(writes); p++ {
		st := pre.Snapshot()
		for _, w := range writes[:p] {
			st.Apply(w)
		}
		r.State(storeState(st))
		r.Eval(fmt.Sprintf("%s|%s|p=%d/%d", what, hist, p, len(writes)), p > 0 && p < len(writes))
		r.Eventf("prefix %s %d/%d", what, p, len(writes))
		checkStore(r, st, fmt.Sprintf("%s after %d of %d writes", what, p, len(writes)))
	}
}

func writeNames(ws []seams.WriteRec) string {
	var s []string
	for _, w := range ws {
		s = append(s, w.Op+":"+w.Object)
	}
	return strings.Join(s, " ")
}

func runC11(r *core.Run) {
	cfg := Config{KM: "memkm", CA: "gcsca", ViaCLI: r.Bool("via-cli")}
	maxRot := 3
	if r.Tier == "thorough" {
		maxRot = 5
	}
	nrot := 1 + r.Intn(maxRot, "rotations")
	keep := r.Intn(2, "continue-from-order")
	// the operator's spelling of --cert_dir: object names are literal strings in the store, and all
	// of these name the same directory
	if r.Chance(4, "root-path-in-cert-dir?") {
		// an unusual layout: --root_path names the object the root key version's own (DER) certificate
		// is stored under. Refusing it is fine; what is written before that has to be consistent.
		r.SetVar("root-path", "certs/GCE-cc-tcb-root-1.crt")
		r.Probe("root-path-collides-with-root-certificate-object")
	} else if r.Chance(35, "cert-dir-spelling?") {
		r.SetVar("cert-dir", []string{"./certs", "certs//signing", "x/../certs", "certs/", "/certs"}[r.Intn(5, "cert-dir-spelling")])
	}
	var a *Authority
	hist := "boot"
	// First bootstrap of an empty store, under both upload orders.
	for order := 0; order < 2; order++ {
		b := NewAuthority(r, cfg, seams.NewPlanNone(r))
		if order == 1 {
			b.Order = func(s []string) []string {
				out := append([]string(nil), s...)
				for i, j := 0, len(out)-1; i < j; i, j = i+1, j-1 {
					out[i], out[j] = out[j], out[i]
				}
				return out
			}
		}
		pre := b.Disk.Snapshot()
		bootCN := cnPool[r.Intn(len(cnPool), "boot-cn")]
		err, _ := b.Bootstrap(BootArgs{SignCN: bootCN})
		if err != nil && rootPathOf(r) != rootPathDefault {
			// the colliding layout is refused: fine, as long as every prefix of what it wrote holds
			r.Eventf("bootstrap order=%d refused (%v), writes: %s", order, err, writeNames(b.Disk.Log))
			checkPrefixes(r, pre, b.Disk.Log, fmt.Sprintf("bootstrap/order=%d/root-path-in-cert-dir", order), hist)
			if order == 1 {
				r.Sample = map[string]any{"config": cfg.String(), "history": "boot(refused: root path names a certificate object)"}
				return
			}
			continue
		}
		if err != nil {
			r.HarnessErr = fmt.Sprintf("fault-free bootstrap of an empty store failed: %v", err)
			return
		}
		r.Eventf("bootstrap order=%d writes: %s", order, writeNames(b.Disk.Log))
		checkPrefixes(r, pre, b.Disk.Log, fmt.Sprintf("bootstrap/order=%d", order), hist)
		// the same first bootstrap with the commit of its j-th object lost (every j)
		for j := range b.Disk.Log {
			lb := NewAuthority(r, cfg, seams.NewPlanNone(r))
			lb.Order = b.Order
			lb.Keygen.Base = b.Keygen.Base
			lb.Disk.FailCloseN = j
			lpre := lb.Disk.Snapshot()
			err, _ := lb.Bootstrap(BootArgs{SignCN: bootCN})
			r.Eventf("bootstrap order=%d lost-write #%d -> %s, durable: %s", order, j, errClass(err, false), writeNames(lb.Disk.Log))
			checkPrefixes(r, lpre, lb.Disk.Log, fmt.Sprintf("bootstrap/order=%d/lost-write@%d", order, j), hist)
			// the operator bootstraps again over what that attempt left: a new process, new keys (other
			// serial numbers too, sometimes), drawn flags. Refusing is fine; every prefix of what the
			// second attempt makes durable is a consistent store.
			if err != nil && r.Chance(40, "bootstrap-again-over-leftovers?") {
				rb := NewAuthority(r, cfg, seams.NewPlanNone(r))
				rb.Order = b.Order
				rb.Keygen.Base = b.Keygen.Base + 5
				rb.Disk = lb.Disk.Snapshot()
				rb.Disk.FailCloseN = -1
				rpre := rb.Disk.Snapshot()
				// (--keep_going is not drawn here: a bootstrap with it keeps a stale root certificate, the
				// known finding of §11.2 recorded under C12, and would be the same report again)
				args := BootArgs{SignCN: bootCN, Flags: Flags{Overwrite: r.Chance(30, "again-overwrite")}}
				if r.Bool("again-other-serials") {
					args.RootSerial, args.SignSerial = 11, 12
				}
				start := len(rb.Disk.Log)
				err2, _ := rb.Bootstrap(args)
				r.Eventf("bootstrap again (ow=%v kg=%v serials=%d) -> %s, durable: %s", args.Overwrite, args.KeepGoing, args.RootSerial, errClass(err2, false), writeNames(rb.Disk.Log[start:]))
				checkPrefixes(r, rpre, rb.Disk.Log[start:], fmt.Sprintf("bootstrap-again-after-lost-write@%d/ow=%v,kg=%v", j, args.Overwrite, args.KeepGoing), hist)
				r.Probe("bootstrap-again-over-leftovers")
			}
		}
		// ... and with one of its objects persistently unwritable (every attempt to store it fails)
		seenObj := map[string]bool{}
		for _, w := range b.Disk.Log {
			if w.Op != "put" || seenObj[w.Object] {
				continue
			}
			seenObj[w.Object] = true
			pb := NewAuthority(r, cfg, seams.NewPlanNone(r))
			pb.Order = b.Order
			pb.Keygen.Base = b.Keygen.Base
			pb.Disk.FailObject = w.Object
			ppre := pb.Disk.Snapshot()
			pkg := r.Bool("unwritable-bootstrap-keep-going")
			err, _ := pb.Bootstrap(BootArgs{SignCN: bootCN, Flags: Flags{KeepGoing: pkg}})
			r.Eventf("bootstrap order=%d (kg=%v) unwritable %s -> %s, durable: %s", order, pkg, w.Object, errClass(err, false), writeNames(pb.Disk.Log))
			checkPrefixes(r, ppre, pb.Disk.Log, fmt.Sprintf("bootstrap/order=%d/unwritable=%s", order, objKind(w.Object)), hist)
		}
		if order == keep {
			a = b
		}
	}
	sample := []string{"bootstrap: " + writeNames(a.Disk.Log)}
	serialBase := 100
	if r.Chance(3, "long-history?") {
		// a long-lived authority: many rotations with long common names, the store reloaded after
		// each (no prefixes: the per-write sweep is what the short histories are for)
		n := 40 + r.Intn(80, "long-history-rotations")
		for i := 0; i < n; i++ {
			a.Now = a.Now.Add(30 * 24 * time.Hour)
			if err, _ := a.Rotate(RotArgs{SignCN: fmt.Sprintf("GCE-uefi-signer-for-the-fleet-of-region-%02d-generation-%03d", i%7, i)}); err != nil {
				r.HarnessErr = fmt.Sprintf("fault-free rotation %d of a long history failed: %v", i, err)
				return
			}
			checkStore(r, a.Disk, fmt.Sprintf("long history after rotation %d of %d", i+1, n))
		}
		r.Probe("long-history")
		hist += fmt.Sprintf(",long(%d)", n)
		serialBase = 1000
	}
	for i := 0; i < nrot; i++ {
		a.Now = a.Now.Add(time.Duration(1+r.Intn(400, "days")) * 24 * time.Hour)
		ra := RotArgs{SignCN: cnPool[r.Intn(len(cnPool), "rot-cn")]}
		if r.Chance(30, "fresh-serial?") {
			// (above anything the default numbering of a long history reaches)
			ra.SerialOverride = int64(serialBase + 10*i + r.Intn(5, "serial"))
		}
		hist += fmt.Sprintf(",rot(cn%d,s%d)", len(ra.SignCN), ra.SerialOverride)
		pre := a.Disk.Snapshot()
		start := len(a.Disk.Log)
		err, _ := a.Rotate(ra)
		if err != nil {
			r.HarnessErr = fmt.Sprintf("fault-free rotation %d failed: %v", i, err)
			return
		}
		writes := append([]seams.WriteRec(nil), a.Disk.Log[start:]...)
		r.Eventf("rotation %d writes: %s", i, writeNames(writes))
		sample = append(sample, fmt.Sprintf("rotate#%d: %s", i, writeNames(writes)))
		checkPrefixes(r, pre, writes, "rotate", hist)
		// Lost writes: the same rotation again from the same pre-state, with the commit (Close) of
		// its j-th object failing. Whatever the operation then does and returns, every prefix of what
		// it made durable must be a consistent store.
		if r.Chance(50, "lost-write?") {
			j := r.Intn(len(writes), "lost-write-index")
			lw := a.Clone()
			lw.Now = a.Now
			lw.Disk = pre.Snapshot()
			// restore the key service to "before this rotation" is not possible for destroyed keys;
			// the rotation re-creates the same key-version name, which memkm overwrites
			lw.Disk.FailCloseN = j
			// half of the time one long-lived process performs this rotation and the next one
			lw.Persist = r.Bool("lost-write-long-lived")
			ra3 := ra
			ra3.Overwrite, ra3.KeepGoing = true, r.Chance(30, "lost-write-keep-going")
			err, _ := lw.Rotate(ra3)
			r.Eventf("lost-write #%d (long-lived=%v): rotate -> %s, durable writes: %s", j, lw.Persist, errClass(err, false), writeNames(lw.Disk.Log))
			checkPrefixes(r, pre, lw.Disk.Log, fmt.Sprintf("rotate/lost-write@%d", j), hist)
			if err == nil {
				r.Probe("rotation-succeeded-despite-lost-write")
			}
			// ... followed by a fault-free rotation with another serial through the same authority
			lw.Disk.FailCloseN = -1
			pre4 := lw.Disk.Snapshot()
			start4 := len(lw.Disk.Log)
			lw.Now = lw.Now.Add(24 * time.Hour)
			err4, _ := lw.Rotate(RotArgs{SerialOverride: int64(900 + i), Flags: Flags{Overwrite: r.Bool("next-overwrite")}})
			r.Eventf("rotation after the lost write -> %s, writes: %s", errClass(err4, false), writeNames(lw.Disk.Log[start4:]))
			checkPrefixes(r, pre4, lw.Disk.Log[start4:], fmt.Sprintf("rotate/after-lost-write@%d/long-lived=%v", j, lw.Persist), hist)
		}
		// The same rotation with one of its objects persistently unwritable.
		if r.Chance(40, "unwritable-object?") {
			w := writes[r.Intn(len(writes), "unwritable-index")]
			pw := a.Clone()
			pw.Now = a.Now
			pw.Disk = pre.Snapshot()
			pw.Disk.FailObject = w.Object
			ra6 := ra
			ra6.Overwrite, ra6.KeepGoing = true, r.Bool("unwritable-keep-going")
			err, _ := pw.Rotate(ra6)
			r.Eventf("rotate with %s unwritable -> %s, durable writes: %s", w.Object, errClass(err, false), writeNames(pw.Disk.Log))
			checkPrefixes(r, pre, pw.Disk.Log, fmt.Sprintf("rotate/unwritable=%s", objKind(w.Object)), hist)
		}
		// The same rotation under --keep_going (drawn --overwrite) with ONE call to key manager, signer
		// or certificate authority failing: whatever the tolerant mode then writes, every prefix of
		// it is a consistent store, and the manifest is not written ahead of its certificates.
		if r.Chance(35, "keep-going-under-fault?") {
			kg := a.Clone()
			kg.Now = a.Now
			kg.Disk = pre.Snapshot()
			plan := seams.NewPlanNone(r)
			plan.Mode, plan.K, plan.Kind = 1, r.Intn(40, "kg-fault-call"), seams.ErrBefore
			kg.Plan, kg.Decorate = plan, true
			kg.Disk.Plan = plan // the store's calls are numbered seam calls of the same plan
			ra5 := ra
			ra5.KeepGoing, ra5.Overwrite = true, r.Bool("kg-overwrite")
			err, _ := kg.Rotate(ra5)
			plan.Mode = 0
			kg.Decorate = false
			r.Eventf("rotate --keep_going under a fault at call %d (fired=%d) -> %s, durable writes: %s", plan.K, plan.Fired, errClass(err, false), writeNames(kg.Disk.Log))
			checkPrefixes(r, pre, kg.Disk.Log, fmt.Sprintf("rotate/keep-going-under-fault/ow=%v", ra5.Overwrite), hist)
			if plan.Fired > 0 {
				r.Probe("keep-going-rotation-hit-by-a-fault")
			}
		}
		// The same rotation with the caller giving up part-way: the command's context is cancelled at
		// one of its calls. Steps that look at the context fail there; steps that do not (a local
		// store) go on. Whatever gets written, every prefix of it is a consistent store.
		if r.Chance(30, "caller-cancels?") {
			cc := a.Clone()
			cc.Now = a.Now
			cc.Disk = pre.Snapshot()
			plan := seams.NewPlanNone(r)
			plan.CancelArmed, plan.CancelAt = true, r.Intn(30, "cancel-at-call")
			cc.Plan, cc.Decorate = plan, true
			cc.Disk.Plan = plan
			err, _ := cc.Rotate(ra)
			cc.Decorate = false
			r.Eventf("rotate with the caller cancelling at call %d (cancelled=%v) -> %s, durable writes: %s", plan.CancelAt, !plan.CancelArmed, errClass(err, false), writeNames(cc.Disk.Log))
			checkPrefixes(r, pre, cc.Disk.Log, "rotate/caller-cancels", hist)
			if !plan.CancelArmed {
				r.Probe("rotation-cancelled-part-way")
			}
		}
		// A rotation cut short at a drawn strict prefix, then re-run with --overwrite from there.
		if len(writes) > 1 && r.Chance(40, "cut-and-rerun?") {
			p := 1 + r.Intn(len(writes)-1, "cut-at")
			cut := a.Clone()
			cut.Disk = pre.Snapshot()
			for _, w := range writes[:p] {
				cut.Disk.Apply(w)
			}
			// The key service keeps what the cut-short attempt left: new key created, old one possibly destroyed.
			ra2 := ra
			// the operator's retry: with --overwrite, with --keep_going, with both, or plain (the
			// last two of which may legitimately be refused: whatever they write must be consistent)
			switch r.Intn(4, "rerun-flags") {
			case 0:
				ra2.Overwrite = true
			case 1:
				ra2.KeepGoing = true
			case 2:
				ra2.Overwrite, ra2.KeepGoing = true, true
			}
			pre2 := cut.Disk.Snapshot()
			err, _ := cut.Rotate(ra2)
			r.Probe("rerun-after-cut")
			r.Eventf("rerun (ow=%v kg=%v) writes: %s", ra2.Overwrite, ra2.KeepGoing, writeNames(cut.Disk.Log))
			checkPrefixes(r, pre2, cut.Disk.Log, fmt.Sprintf("rotate-rerun-after-cut@%d/ow=%v,kg=%v", p, ra2.Overwrite, ra2.KeepGoing), hist)
			if err == nil {
				r.Probe("rerun-after-cut-succeeded")
			} else {
				r.Probe("rerun-after-cut-refused")
			}
		}
	}
	// The store is wiped and bootstrapped again — by a fresh process, or by the same long-lived one
	// that performed a rotation before and whose storage wipeout may have lost its acknowledgement:
	// it is a bootstrap of an empty store all the same.
	if r.Chance(35, "wipe-and-rebootstrap?") {
		w := a.Clone()
		w.Now = a.Now.Add(24 * time.Hour)
		w.Persist = r.Chance(70, "rebootstrap-long-lived")
		if err, _ := w.Rotate(RotArgs{SerialOverride: 700}); err != nil {
			r.HarnessErr = fmt.Sprintf("fault-free rotation before the wipeout failed: %v", err)
			return
		}
		lostAck := r.Bool("wipeout-lost-ack")
		w.Disk.WipeoutLostAck = lostAck
		errCA, _ := w.Wipeout("ca", Flags{})
		w.Disk.WipeoutLostAck = false
		errK, _ := w.Wipeout("keys", Flags{})
		if len(w.Disk.Names(bucket)) != 0 || errK != nil {
			r.HarnessErr = fmt.Sprintf("wipeout left objects %v behind (ca: %v, keys: %v)", w.Disk.Names(bucket), errCA, errK)
			return
		}
		pre := w.Disk.Snapshot()
		start := len(w.Disk.Log)
		w.Now = w.Now.Add(24 * time.Hour)
		errB, _ := w.Bootstrap(BootArgs{SignCN: cnPool[r.Intn(len(cnPool), "reboot-cn")]})
		writes := append([]seams.WriteRec(nil), w.Disk.Log[start:]...)
		r.Eventf("bootstrap after wipeout (long-lived=%v, lost-ack=%v, wipeout ca -> %s) -> %s, writes: %s", w.Persist, lostAck, errClass(errCA, false), errClass(errB, false), writeNames(writes))
		checkPrefixes(r, pre, writes, fmt.Sprintf("bootstrap-after-wipeout/long-lived=%v/lost-ack=%v", w.Persist, lostAck), hist)
		r.Probe("bootstrap-after-wipeout")
	}
	r.Sample = map[string]any{"config": cfg.String(), "history": hist, "writes": sample}
}

// objKind names an object by its role, for evaluation keys.
func objKind(name string) string {
	switch {
	case name == gcsca.ManifestObjectName:
		return "manifest"
	case strings.HasSuffix(name, "root.crt"):
		return "root.crt"
	}
	return "certificate"
}
