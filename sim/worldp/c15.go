package worldp

import (
	"bufio"
	"bytes"
	"encoding/hex"
	"fmt"
	"io"
	"os"
	"path/filepath"
	"sort"
	"strings"
	"time"

	"github.com/google/gce-tcb-verifier/endorse"
	epb "github.com/google/gce-tcb-verifier/proto/endorsement"
	"google.golang.org/protobuf/proto"

	"verifsim/core"
	"verifsim/images"
	"verifsim/seams"
	"verifsim/worlda"
)

func init() {
	core.Register(&core.Check{
		ID: "C15", World: "P (publication)", Level: "exploration",
		Rule: "one evaluation = one endorse run in a drawn (dry-run, measurement-only, technologies, snapshot directory, candidate name, overwrite, VMSA count, product, machine shapes, early accept) configuration over a pool image, through the library entry point and through the `endorse` cobra command, against recording seam doubles (SimVCS call log; counting decorators around certificate authority, signer and key manager); " +
			"measurement-only output captured from stdout is compared, as sets, with what a real run over the same image and options signs in the same simulated world; non-trivial = dry-run or measurement-only is set; distinct by configuration tuple",
		Assumptions: []string{
			"VersionControl.ReleasePath and Result are not effects (no workspace, file or commit); every ChangeOps method and GetChangeOps is",
			"for a dry run that is not measurement-only, 'reports the same measurements' has no observable (nothing is printed); only measurement-only output is compared",
		},
		Components: []core.Component{
			{Name: "endorse.VirtualFirmware, cmd endorse flag wiring", Kind: "real"},
			{Name: "sev/tdx measurement code", Kind: "real", Note: "as provider of values; correctness is C04/C05"},
			{Name: "version control", Kind: "stub", Note: "SimVCS recording every call"},
			{Name: "CA / signer / key manager", Kind: "real", Note: "memkm+memca behind counting decorators"},
		},
		Budget: core.StdBudget(1200, 100*time.Second, 100000, 9*time.Minute),
		Body:   runC15,
	})
}

type measSet map[string]bool

func signedSets(raw []byte) (snp, tdx measSet, err error) {
	le := &epb.VMLaunchEndorsement{}
	if err := proto.Unmarshal(raw, le); err != nil {
		return nil, nil, err
	}
	g := &epb.VMGoldenMeasurement{}
	if err := proto.Unmarshal(le.GetSerializedUefiGolden(), g); err != nil {
		return nil, nil, err
	}
	snp, tdx = measSet{}, measSet{}
	for c, m := range g.GetSevSnp().GetMeasurements() {
		snp[fmt.Sprintf("%d %s", c, hex.EncodeToString(m))] = true
	}
	for _, m := range g.GetTdx().GetMeasurements() {
		tdx[fmt.Sprintf("RAM:%d UnacceptedMemory:%t MRTD:%s", m.RamGib, !m.EarlyAccept, hex.EncodeToString(m.Mrtd))] = true
	}
	return snp, tdx, nil
}

func reportedSets(out string, vmsas uint32) (snp, tdx measSet) {
	snp, tdx = measSet{}, measSet{}
	sc := bufio.NewScanner(strings.NewReader(out))
	for sc.Scan() {
		line := strings.TrimSpace(sc.Text())
		switch {
		case line == "":
		case strings.HasPrefix(line, "RAM:"):
			tdx[line] = true
		case !strings.Contains(line, " ") && vmsas != 0:
			snp[fmt.Sprintf("%d %s", vmsas, line)] = true
		default:
			snp[line] = true
		}
	}
	return snp, tdx
}

func setStr(m measSet) string {
	var s []string
	for k := range m {
		if len(k) > 40 {
			k = k[:40] + "..."
		}
		s = append(s, k)
	}
	sort.Strings(s)
	return strings.Join(s, "; ")
}

func sameSet(a, b measSet) bool {
	if len(a) != len(b) {
		return false
	}
	for k := range a {
		if !b[k] {
			return false
		}
	}
	return true
}

func runC15(r *core.Run) {
	plan := seams.NewPlanNone(r)
	a := worlda.NewAuthority(r, worlda.Config{KM: "memkm", CA: "memca", ViaCLI: true}, plan)
	if err, _ := a.Bootstrap(worlda.BootArgs{}); err != nil {
		r.HarnessErr = "bootstrap: " + err.Error()
		return
	}
	scratch := Scratch(r)
	vcs := seams.NewSimVCS(r, "/release")
	// the repository may keep the very slices it is handed (see C13)
	vcs.Retain = r.Chance(40, "retaining-back-end?")
	pool := images.Pool()
	img := pool[r.Intn(4, "image")]
	if r.Chance(25, "tdx-image?") {
		img = pool[4+r.Intn(2, "tdx-image")]
	} else if r.Chance(12, "caa-image?") {
		img = pool[6] // SEV metadata with an SVSM calling-area section
	}
	mode := r.Intn(3, "mode") // 0 dry-run, 1 measurement-only, 2 both
	q := Req{Image: img, OutDir: "out", Candidate: []string{"", "rc1"}[r.Intn(2, "candidate")], Overwrite: r.Bool("overwrite"),
		SNP: true, ClSpec: 11, Timestamp: a.Now, Retries: r.Intn(3, "retries"), ViaCLI: r.Bool("via-cli"),
		DryRun: mode != 1, MeasurementOnly: mode != 0}
	if r.Bool("snapshot?") {
		q.SnapshotDir = "snap"
	}
	if q.ViaCLI {
		q.BoolSpelling = r.Intn(10, "bool-flag-spelling")
	}
	if r.Bool("one-count?") {
		q.LaunchVmsas = []uint32{1, 2, 8, 224, 3, 6, 12, 500}[r.Intn(8, "vmsas")] // incl. counts outside the shipped machine-shape list
	}
	q.Genoa = r.Chance(30, "genoa?")
	if r.Chance(20, "svsm?") {
		q.Svsm = bytes.Repeat([]byte{byte(0x50 + r.Intn(16, "svsm-byte"))}, 48)
	}
	if img.TDX {
		q.TDX = true
		q.SNP = r.Bool("tdx-with-snp")
		if r.Bool("shapes?") {
			q.Shapes = [][]string{{"c3-standard-4"}, {"c3-standard-8", "c3-standard-88"}}[r.Intn(2, "shape-set")]
			q.EarlyAccept = r.Bool("early-accept")
		}
	}
	// Pre-populate the repository in half of the runs so existence checks see files.
	if r.Bool("prepopulate?") {
		real := q
		real.DryRun, real.MeasurementOnly, real.SnapshotDir, real.ViaCLI = false, false, "", false
		if _, err := Endorse(r, a, vcs, real, scratch); err != nil {
			r.HarnessErr = "pre-populating real run failed: " + err.Error()
			return
		}
	}
	// long-lived callers: the run under test re-uses the endorse.Context of an earlier real run, or
	// has Context.VCSs seeded with two back ends (library path only)
	vcs2 := seams.NewSimVCS(r, "/release2")
	if !q.ViaCLI {
		switch r.Intn(5, "context-shape") {
		case 1:
			real := q
			real.DryRun, real.MeasurementOnly, real.SnapshotDir, real.Candidate, real.Overwrite = false, false, "", "c15-earlier", true
			ec := BuildContext(vcs, real)
			real.Reuse = ec
			if _, err := Endorse(r, a, vcs, real, scratch); err != nil {
				r.HarnessErr = "earlier real run on the shared context failed: " + err.Error()
				return
			}
			q.Reuse = ec
			r.Probe("reused-context")
		case 4:
			// the long-lived Context has just been through a real run of the same image whose
			// submission FAILED (the back end refused the commit): this run is still what it says
			real := q
			real.DryRun, real.MeasurementOnly, real.SnapshotDir, real.Candidate, real.Overwrite, real.Retries = false, false, "", "c15-failed", true, 0
			ec := BuildContext(vcs, real)
			real.Reuse = ec
			vcs.Decide = func(site string, ws int) seams.Decision { return seams.Decision{Fail: site == "TryCommit"} }
			_, ferr := Endorse(r, a, vcs, real, scratch)
			vcs.Decide = nil
			if ferr == nil {
				r.HarnessErr = "the earlier real run was meant to fail at its commit"
				return
			}
			q.Reuse = ec
			r.Probe("reused-context-after-failed-submission")
		case 2:
			q.SeedVCSs = []endorse.VersionControl{vcs, vcs2}
			r.Probe("seeded-vcss")
		case 3:
			// the same long-lived Context has just PREVIEWED the same image with other options
			// (product, VMSA count, machine shapes): this preview reports this run's measurements
			prior := q
			prior.Genoa = !q.Genoa
			switch q.LaunchVmsas {
			case 0:
				prior.LaunchVmsas = 4
			default:
				prior.LaunchVmsas = 0
			}
			if q.TDX {
				prior.EarlyAccept = !q.EarlyAccept
				if len(q.Shapes) == 0 {
					prior.Shapes = []string{"c3-standard-4"}
				} else {
					prior.Shapes = nil
				}
			}
			ec := BuildContext(vcs, prior)
			prior.Reuse = ec
			if _, err := Endorse(r, a, vcs, prior, scratch); err != nil {
				r.Fail("dry-run-crash", "error/earlier-preview", "%s: the preview run failed: %v", prior, err)
				return
			}
			q.Reuse = ec
			r.Probe("reused-context-after-other-preview")
		}
	}
	// a transient failure of the randomness source during the run, on a back end that calls every
	// error retriable: the retried attempt of a dry run is as dry as the first
	var flaky *flakyReader
	var runVCS endorse.VersionControl = vcs
	if r.Chance(20, "transient-random-failure?") {
		flaky = &flakyReader{R: a.Rand, FailNext: 1 + r.Intn(2, "random-failures")}
		a.Rand = flaky
		defer func() { a.Rand = flaky.R }()
		runVCS = retryAllVCS{vcs}
		if q.Retries < 2 {
			q.Retries = 2
		}
	}
	if !q.ViaCLI && !q.MeasurementOnly {
		q.Verbosity = r.Intn(3, "verbosity")
	}
	calls0 := len(vcs.Calls)
	head0 := vcs.HeadRev
	// what the repository holds, byte for byte, and what lies in the temporary directory: a run that
	// commits nothing changes neither
	bytes0 := map[string][]byte{}
	for p, b := range vcs.Head {
		bytes0[p] = append([]byte(nil), b...)
	}
	tmpWatch := filepath.Join(scratch, "tmpdir")
	os.MkdirAll(tmpWatch, 0o755)
	oldTmp, hadTmp := os.LookupEnv("TMPDIR")
	os.Setenv("TMPDIR", tmpWatch)
	restoreTmp := func() {
		if hadTmp {
			os.Setenv("TMPDIR", oldTmp)
		} else {
			os.Unsetenv("TMPDIR")
		}
	}
	a.Decorate = true
	plan.Active = true
	plan.N, plan.Sites = 0, nil
	var out string
	var err error
	var panicked any
	func() {
		defer func() { panicked = recover() }()
		out, err = Endorse(r, a, runVCS, q, scratch)
	}()
	if flaky != nil {
		a.Rand = flaky.R
		if flaky.Fired > 0 {
			r.Fault("random-read-error", "%d reads failed", flaky.Fired)
		}
	}
	plan.Active = false
	a.Decorate = false
	restoreTmp()
	var strays []string
	if es, rerr := os.ReadDir(tmpWatch); rerr == nil {
		for _, e := range es {
			strays = append(strays, e.Name())
		}
	}
	cfgKey := fmt.Sprintf("dry=%v mo=%v snp=%v tdx=%v snap=%v cand=%q ow=%v vmsas=%d genoa=%v shapes=%d ea=%v cli=%v tdximg=%v", q.DryRun, q.MeasurementOnly, q.SNP, q.TDX, q.SnapshotDir != "", q.Candidate, q.Overwrite, q.LaunchVmsas, q.Genoa, len(q.Shapes), q.EarlyAccept, q.ViaCLI, img.TDX)
	r.Eval(cfgKey, true)
	r.State(fmt.Sprintf("dry=%v mo=%v snap=%v", q.DryRun, q.MeasurementOnly, q.SnapshotDir != ""))
	mk := fmt.Sprintf("mo=%v/snapshot=%v", q.MeasurementOnly, q.SnapshotDir != "")
	if panicked != nil {
		r.Fail("dry-run-crash", "panic/"+mk, "%s: the run panicked: %v", q, panicked)
		return
	}
	if err != nil && flaky != nil && flaky.Fired > 0 {
		// failing on a failed randomness read is legitimate; doing anything to the repository is not
		r.Probe("run-failed-on-random-read-error")
		if n := len(vcs.Calls) - calls0; n != 0 || vcs.HeadRev != head0 {
			r.Fail("dry-run-side-effect", "after-random-error/"+mk, "%s: %d version-control calls were made after a failed randomness read, head moved %d -> %d", q, n, head0, vcs.HeadRev)
		}
		return
	}
	if err != nil {
		r.Fail("dry-run-crash", "error/"+mk, "%s: the run failed: %v", q, err)
		return
	}
	if len(vcs2.Calls) != 0 || vcs2.HeadRev != 0 {
		r.Fail("dry-run-side-effect", "second-backend/"+mk, "%s: %d calls reached the second seeded version-control back end", q, len(vcs2.Calls))
	}
	if n := len(vcs.Calls) - calls0; n != 0 || vcs.HeadRev != head0 {
		var names []string
		for _, c := range vcs.Calls[calls0:] {
			names = append(names, c.Name)
		}
		r.Fail("dry-run-side-effect", mk, "%s: %d version-control calls were made (%v), head moved %d -> %d", q, n, names, head0, vcs.HeadRev)
	}
	for _, p := range core.SortedKeys(bytes0) {
		if now, ok := vcs.Head[p]; !ok || !bytes.Equal(now, bytes0[p]) {
			r.Fail("dry-run-side-effect", "committed-bytes-changed/"+mk, "%s: the run made no version-control call, yet the committed file %s no longer holds the bytes it held before the run", q, p)
		}
	}
	if len(strays) != 0 {
		r.Fail("dry-run-side-effect", "file-in-tmpdir/"+mk, "%s: the run left %d file(s) in the temporary directory (%v): a run that writes no file writes none there either", q, len(strays), strays)
	}
	if q.MeasurementOnly {
		if plan.N != 0 {
			r.Fail("measurement-only-touches-keys", "decorators", "%s: %d calls reached the certificate authority / signer / key manager: %v", q, plan.N, plan.Sites)
		}
		// what a real run over the same image and options signs
		real := q
		real.DryRun, real.MeasurementOnly, real.SnapshotDir, real.ViaCLI, real.Overwrite, real.Candidate = false, false, "", false, true, "c15-real"
		if _, err := Endorse(r, a, vcs, real, scratch); err != nil {
			r.HarnessErr = "reference real run failed: " + err.Error()
			return
		}
		wantSnp, wantTdx, perr := signedSets(vcs.Head["/release/out/c15-real.binarypb"])
		if perr != nil {
			r.HarnessErr = "reference real run output unreadable: " + perr.Error()
			return
		}
		gotSnp, gotTdx := reportedSets(out, q.LaunchVmsas)
		if !sameSet(gotSnp, wantSnp) {
			r.Fail("reported-≠-signed", "snp", "%s: reported SNP measurements {%s} differ from the signed ones {%s}", q, setStr(gotSnp), setStr(wantSnp))
		}
		if !sameSet(gotTdx, wantTdx) {
			r.Fail("reported-≠-signed", "tdx", "%s: reported TDX measurements {%s} differ from the signed ones {%s}", q, setStr(gotTdx), setStr(wantTdx))
		}
	}
	r.Sample = map[string]any{"config": cfgKey, "stdout_lines": strings.Count(out, "\n")}
}

// flakyReader fails its next FailNext reads.
type flakyReader struct {
	R        io.Reader
	FailNext int
	Fired    int
}

func (f *flakyReader) Read(p []byte) (int, error) {
	if f.FailNext > 0 {
		f.FailNext--
		f.Fired++
		return 0, fmt.Errorf("randomness source: resource temporarily unavailable")
	}
	return f.R.Read(p)
}

// retryAllVCS is a back end that calls every error retriable (the interface leaves that to it).
type retryAllVCS struct{ *seams.SimVCS }

func (retryAllVCS) RetriableError(error) bool { return true }
