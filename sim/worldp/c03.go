package worldp

import (
	"bytes"
	"context"
	"crypto/sha256"
	"crypto/x509"
	"encoding/pem"
	"fmt"
	"math/big"
	"path"
	"strconv"
	"time"

	"github.com/google/gce-tcb-verifier/cmd/output"
	"github.com/google/gce-tcb-verifier/gcetcbendorsement"
	gcmd "github.com/google/gce-tcb-verifier/gcetcbendorsement/cmd"
	epb "github.com/google/gce-tcb-verifier/proto/endorsement"
	"github.com/google/gce-tcb-verifier/verify"
	spb "github.com/google/go-sev-guest/proto/sevsnp"
	"google.golang.org/protobuf/proto"
	fmpb "google.golang.org/protobuf/types/known/fieldmaskpb"

	"verifsim/attest"
	"verifsim/core"
	"verifsim/gcli"
	"verifsim/images"
	"verifsim/refv"
	"verifsim/seams"
	"verifsim/worlda"
)

var c03Configs = []worlda.Config{
	{KM: "memkm", CA: "memca"}, {KM: "memkm", CA: "memca", ViaCLI: true},
	{KM: "memkm", CA: "gcsca"}, {KM: "memkm", CA: "gcsca", ViaCLI: true},
	{KM: "localkm", CA: "localca", ViaCLI: true}, {KM: "localkm", CA: "gcsca"},
	{KM: "gcpkms", CA: "gcsca"}, {KM: "gcpkms", CA: "gcsca", ViaCLI: true},
}

func init() {
	core.Register(&core.Check{
		ID: "C03", World: "A+P (authority lifecycle + publication)", Level: "exploration",
		Rule: "one evaluation = one (key history, endorsement, verification time) triple: seeded histories of bootstrap + up to 6 rotations (drawn common names, serial overrides absent/fresh/colliding, --overwrite, --keep_going, monotone and non-monotone timestamps, restarts = fresh process per command) over in-memory and storage-backed authorities, interleaved with endorse runs of pool images (SNP, TDX, VMSA counts, products, shapes, SVSM, clspec or commit provenance); " +
			"after every later operation every endorsement issued so far is re-verified with verify.Endorsement at both end points of the common validity window and a drawn interior time, with verify.SNP / the SNP closure for every listed measurement, and by the independent reference verifier on the bytes SimVCS holds and on the inspect commands' raw output; " +
			"non-trivial = the history has at least one successful rotation before the verification, or the time is a window end point; distinct by (history shape, time class)",
		Assumptions: []string{
			"the trusted root of an endorsement is the authority's stored root certificate at the time of issue",
			"count 1 is not demanded under a named VMSA count (verify.SNP reads one VMSA as an SVSM launch); see DESIGN C03",
			"SevValidate and TdxValidate are driven with fabricated reports/quotes (package attest): hardware signatures are not part of the property",
		},
		Components: []core.Component{
			{Name: "rotate.*, cmd bootstrap/rotate/endorse, endorse.VirtualFirmware/SignDoc/commit", Kind: "real"},
			{Name: "sev.UnsignedSnp, tdx.UnsignedTDX (measurement providers)", Kind: "real"},
			{Name: "verify.Endorsement/SNP/SNPValidateFunc, gcetcbendorsement.Inspect*", Kind: "real"},
			{Name: "memkm/localkm, memca/gcsca/localca, nonprod signer", Kind: "real", Note: "keys from a fixed pool"},
			{Name: "object store, version control", Kind: "stub", Note: "SimDisk, SimVCS"},
			{Name: "reference verifier", Kind: "stub", Note: "refv: crypto/rsa + crypto/x509 only"},
		},
		Budget: core.StdBudget(900, 100*time.Second, 120000, 9*time.Minute),
		Body:   runC03,
	})
}

type issued struct {
	id      int
	path    string // file in SimVCS
	root    *x509.Certificate
	rotsAt  int // successful rotations before issue
	q       Req
	svsm    []byte
	shape   string
	checked int
}

func runC03(r *core.Run) {
	cfg := c03Configs[r.Intn(len(c03Configs), "config")]
	a := worlda.NewAuthority(r, cfg, seams.NewPlanNone(r))
	// a long-lived signing service (one set of CA / key-manager objects for the whole history)
	// instead of one fresh process per command; library configurations only
	a.Persist = !cfg.ViaCLI && r.Chance(40, "long-lived-process?")
	vcs := seams.NewSimVCS(r, "/release")
	// the repository may keep the very slices it was handed (see C13): what it holds is still what
	// each run emitted
	vcs.Retain = r.Chance(35, "retaining-back-end?")
	scratch := ""
	nOps := 3 + r.Intn(8, "ops")
	bootCN := []string{"", "signer-c"}[r.Intn(2, "boot-cn")]
	if err, _ := a.Bootstrap(worlda.BootArgs{SignCN: bootCN}); err != nil {
		r.HarnessErr = fmt.Sprintf("fault-free bootstrap failed: %v", err)
		return
	}
	rootStart := a.Now
	rots := 0
	var all []*issued
	shape := "boot"
	usedSerials := []int64{2}
	lastSerial := int64(2)
	pool := images.Pool()
	for op := 0; op < nOps; op++ {
		// clock
		if r.Chance(15, "clock-backward?") {
			back := a.Now.Add(-time.Duration(r.Intn(200, "back-days")) * 24 * time.Hour)
			// an operator's --timestamp may also predate the bootstrap's (backdated rotations and
			// documents): the windows below are the intersection of both certificates' validities
			if back.After(rootStart.Add(-100 * 24 * time.Hour)) {
				a.Now = back
				if back.Before(rootStart) {
					r.Probe("clock-before-root-validity")
				}
			}
		} else {
			d := time.Duration(r.Intn(500, "advance-days"))*24*time.Hour + time.Duration(r.Intn(86400, "advance-seconds"))*time.Second
			a.Now = a.Now.Add(d)
			r.Advance(d)
		}
		if r.Chance(45, "rotate?") && rots < 6 {
			ra := worlda.RotArgs{Flags: worlda.Flags{Overwrite: r.Chance(30, "overwrite?"), KeepGoing: r.Chance(25, "keep-going?")},
				SignCN: []string{"", "GCE-uefi-signer-b", "signer-c"}[r.Intn(3, "rot-cn")]}
			kind := "d"
			switch r.Intn(5, "serial-override") {
			case 0:
				ra.SerialOverride = int64(200 + 7*op + r.Intn(5, "fresh-serial"))
				kind = "f"
			case 1:
				ra.SerialOverride = usedSerials[r.Intn(len(usedSerials), "colliding-serial")]
				kind = "c"
			}
			if r.Chance(8, "huge-serial?") {
				// serial numbers are arbitrary-precision: 64 bits and more are legal
				ra.SerialOverride = 0
				ra.SerialBig = new(big.Int).Add(new(big.Int).Lsh(big.NewInt(1), uint(63+r.Intn(30, "serial-bits"))), big.NewInt(int64(3+op)))
				kind = "h"
			}
			if r.Chance(8, "root-twin-subject?") {
				// the operator gives the new signing key the root's own common name and serial: its
				// certificate's subject then equals its issuer's. It is still a leaf the root issued.
				if h := a.CheckHealth(a.Now); h.Root != nil {
					if n, perr := strconv.ParseInt(h.Root.Subject.SerialNumber, 10, 64); perr == nil && n != 0 {
						ra.SignCN, ra.SerialOverride, ra.SerialBig, kind = h.Root.Subject.CommonName, n, nil, "t"
						r.Probe("root-twin-subject-rotation")
					}
				}
			}
			err, _ := a.Rotate(ra)
			if err == nil {
				rots++
				if ra.SerialOverride != 0 {
					lastSerial = ra.SerialOverride
				} else {
					lastSerial++
				}
				usedSerials = append(usedSerials, lastSerial)
				shape += fmt.Sprintf(",rot(%s,ow%v,kg%v)", kind, ra.Overwrite, ra.KeepGoing)
			} else {
				shape += fmt.Sprintf(",rotfail(%s,ow%v,kg%v)", kind, ra.Overwrite, ra.KeepGoing)
				r.Probe("rotation-refused")
			}
		} else {
			img := pool[r.Intn(len(pool), "image")]
			if img.TDX && !r.Chance(30, "big-image?") {
				img = pool[r.Intn(4, "small-image")]
			}
			q := Req{Image: img, OutDir: "endorsements", Candidate: fmt.Sprintf("cand%d", len(all)), SNP: true, Timestamp: a.Now.Add(-time.Duration(r.Intn(3600, "doc-age-s")) * time.Second),
				Retries: 1, ViaCLI: cfg.ViaCLI && r.Bool("endorse-via-cli")}
			if !q.ViaCLI && r.Chance(12, "odd-document-date?") {
				// the document date is the request's to choose (library path): left unset, before
				// 1970 with a fraction of a second, or centuries ahead. It plays no part in what the
				// verifier has to accept.
				q.Timestamp = []time.Time{{}, time.Unix(-1, 500_000_000).UTC(), time.Date(1969, 7, 20, 20, 17, 40, 250_000_000, time.UTC), time.Date(2300, 1, 1, 0, 0, 0, 0, time.UTC), time.Date(1600, 1, 1, 0, 0, 0, 1, time.UTC)}[r.Intn(5, "odd-document-date")]
				r.Probe("odd-document-date")
			}
			if r.Bool("provenance-commit") {
				n := 20
				if !q.ViaCLI {
					// the command line only takes 20 bytes; the library signs whatever commit it is given
					n = []int{20, 20, 32, 1, 64}[r.Intn(5, "commit-len")]
				}
				q.Commit = bytes.Repeat([]byte{byte(1 + r.Intn(200, "commit-byte"))}, n)
			} else {
				q.ClSpec = uint64(1 + r.Intn(1<<20, "clspec"))
			}
			if r.Chance(40, "one-count?") {
				q.LaunchVmsas = []uint32{1, 2, 4, 8, 224, 3, 6, 12, 100, 255}[r.Intn(10, "vmsas")]
			}
			q.Genoa = r.Chance(30, "genoa?")
			if img.TDX {
				q.TDX = true
				q.SNP = r.Bool("tdx-with-snp")
				if r.Bool("shapes?") {
					q.Shapes = [][]string{{"c3-standard-4"}, {"c3-standard-8", "c3-standard-88"},
						{"c3-standard-4", "c3-standard-8", "c3-standard-22", "c3-standard-44", "c3-standard-88", "c3-standard-176"}}[r.Intn(3, "shape-set")] // the last: every shipped shape, the longest document
					q.EarlyAccept = r.Bool("early-accept")
				}
			}
			if q.SNP && r.Chance(25, "svsm?") {
				q.Svsm = bytes.Repeat([]byte{byte(0x40 + r.Intn(16, "svsm-byte"))}, 48)
			}
			if q.ViaCLI && scratch == "" {
				scratch = Scratch(r)
			}
			// the root a relying party would trust for this endorsement
			h := a.CheckHealth(a.Now)
			// sometimes a concurrent operator rotates the key in the middle of signing
			interleaved := false
			if !q.ViaCLI && rots < 6 && r.Chance(12, "rotate-during-signing?") {
				q.Interleave = func() {
					interleaved = true
					if err, _ := a.Rotate(worlda.RotArgs{}); err == nil {
						rots++
						lastSerial++
						usedSerials = append(usedSerials, lastSerial)
						shape += ",rot-during-signing"
						r.Probe("rotated-during-signing")
					}
				}
			}
			_, err := Endorse(r, a, vcs, q, scratch)
			if err != nil && interleaved {
				// failing safe (nothing emitted) under a concurrent rotation is fine: the property
				// speaks about what the pipeline writes
				r.Probe("endorse-refused-under-concurrent-rotation")
				continue
			}
			if err != nil {
				r.Fail("genuine-rejected", "endorse-fails/"+shapeKey(shape), "%s history %s: the endorse pipeline fails on a healthy history: %v (health before: %s)", cfg, shape, err, h)
				continue
			}
			if h.Root == nil {
				r.Fail("genuine-rejected", "no-root/"+shapeKey(shape), "%s history %s: endorsement issued but the authority serves no root certificate", cfg, shape)
				continue
			}
			all = append(all, &issued{id: len(all), path: path.Join("/release", "endorsements", q.Candidate+".binarypb"), root: h.Root, rotsAt: rots, q: q, shape: shape})
			shape += ",endorse"
		}
		for _, e := range all {
			c03Verify(r, cfg, vcs, e, rots, shape)
		}
		r.State(shape)
	}
	r.Sample = map[string]any{"config": cfg.String(), "long_lived_process": a.Persist, "history": shape, "endorsements": len(all)}
}

// shapeKey reduces a history to the feature a known finding would be keyed on.
func shapeKey(shape string) string {
	if bytes.Contains([]byte(shape), []byte("kgtrue")) {
		return "history-with-keep-going"
	}
	return "history"
}

func c03Verify(r *core.Run, cfg worlda.Config, vcs *seams.SimVCS, e *issued, rotsNow int, shape string) {
	raw, ok := vcs.Head[e.path]
	if !ok {
		r.Fail("genuine-rejected", "file-missing", "%s: endorsement file %s is not in the repository head", cfg, e.path)
		return
	}
	// the emitted bytes are part of the run's record: a run is only replayable if they are a
	// function of its trace (hooks H3 and H4, DetReader salts); the determinism self-test watches it
	r.Eventf("emitted %s sha256=%x", e.path, sha256.Sum256(raw))
	var le epb.VMLaunchEndorsement
	if err := proto.Unmarshal(raw, &le); err != nil {
		r.Fail("genuine-rejected", "file-unparseable", "%s: %s does not parse: %v", cfg, e.path, err)
		return
	}
	golden := &epb.VMGoldenMeasurement{}
	if err := proto.Unmarshal(le.GetSerializedUefiGolden(), golden); err != nil {
		r.Fail("genuine-rejected", "payload-unparseable", "%s: payload of %s does not parse: %v", cfg, e.path, err)
		return
	}
	cert, err := x509.ParseCertificate(golden.GetCert())
	if err != nil {
		r.Fail("genuine-rejected", "cert-unparseable", "%s: embedded certificate of %s does not parse: %v", cfg, e.path, err)
		return
	}
	lo, hi := cert.NotBefore, cert.NotAfter
	if e.root.NotBefore.After(lo) {
		lo = e.root.NotBefore
	}
	if e.root.NotAfter.Before(hi) {
		hi = e.root.NotAfter
	}
	if !lo.Before(hi) {
		r.Probe("empty-validity-window")
		return
	}
	pool := x509.NewCertPool()
	pool.AddCert(e.root)
	span := int(hi.Sub(lo) / time.Second)
	times := []struct {
		t     time.Time
		class string
	}{{lo, "window-start"}, {hi, "window-end"}, {lo.Add(time.Duration(1+r.Intn(span-1, "verify-at")) * time.Second), "interior"}}
	after := rotsNow > e.rotsAt
	for _, tc := range times {
		r.Eval(fmt.Sprintf("%s|%s|%s|after=%v", cfg, e.shape, tc.class, after), e.rotsAt > 0 || after || tc.class != "interior")
		class := "genuine-rejected"
		if after {
			class = "pre-rotation-rejected"
		}
		if err := verify.Endorsement(raw, &verify.Options{RootsOfTrust: pool, Now: tc.t, ExpectedUefiSha384: e.q.Image.Digest[:]}); err != nil {
			r.Fail(class, tc.class+"/"+shapeKey(e.shape), "%s history %s: endorsement #%d (%s) rejected at %s (%v): %v", cfg, e.shape, e.id, e.q, tc.class, tc.t.UTC(), err)
		}
		if v := refv.Check(le.GetSerializedUefiGolden(), le.GetSignature(), []*x509.Certificate{e.root}, tc.t); !v.OK() {
			r.Fail(class, "reference/"+tc.class+"/"+shapeKey(e.shape), "%s history %s: independent verifier rejects endorsement #%d at %s: %s", cfg, e.shape, e.id, tc.class, v.FirstFailure())
		}
	}
	// the verify command (root certificate from a file, clock from the backend) accepts it too
	if r.Chance(25, "cli-verify?") {
		io := gcli.NewMemIO()
		io.Files["e.binarypb"] = raw
		io.Files["root.pem"] = pem.EncodeToMemory(&pem.Block{Type: "CERTIFICATE", Bytes: e.root.Raw})
		if r.Bool("root-as-der") {
			io.Files["root.pem"] = e.root.Raw
		}
		at := times[r.Intn(len(times), "cli-time")]
		if err := gcli.Run(&gcmd.Backend{Now: at.t, IO: io}, "verify", "--root_cert", "root.pem", "e.binarypb"); err != nil {
			class := "genuine-rejected"
			if after {
				class = "pre-rotation-rejected"
			}
			r.Fail(class, "cli-verify/"+at.class+"/"+shapeKey(e.shape), "%s history %s: `verify` rejects endorsement #%d at %s: %v", cfg, e.shape, e.id, at.class, err)
		}
		r.Probe("cli-verify")
	}
	if e.checked > 0 {
		return // the content checks below do not depend on time or later history
	}
	e.checked++
	mid := times[2].t
	// (b) every listed measurement is accepted for its configuration
	if snp := golden.GetSevSnp(); snp != nil {
		var counts []uint32
		for c := range snp.GetMeasurements() {
			counts = append(counts, c)
		}
		sortU32(counts)
		for _, c := range counts {
			m := snp.Measurements[c]
			if err := verify.SNP(golden, &verify.SNPOptions{Measurement: m}); err != nil {
				r.Fail("listed-measurement-rejected", "verify.SNP/no-count", "%s: measurement listed for %d VMSAs rejected when no count is named: %v", cfg, c, err)
			}
			if c != 1 {
				if err := verify.SNP(golden, &verify.SNPOptions{Measurement: m, ExpectedLaunchVMSAs: c}); err != nil {
					r.Fail("listed-measurement-rejected", "verify.SNP/named-count", "%s: measurement listed for %d VMSAs rejected when that count is named: %v", cfg, c, err)
				}
			}
			// the validator closure, blob from the certificate table
			opts := &verify.Options{RootsOfTrust: pool, Now: mid}
			if c != 1 {
				opts.SNP = &verify.SNPOptions{ExpectedLaunchVMSAs: c}
			}
			f := verify.SNPValidateFunc(opts)
			if err := f(&spb.Attestation{Report: &spb.Report{Measurement: m}}, raw); err != nil {
				r.Fail("listed-measurement-rejected", "closure", "%s: SNP validator closure rejects the measurement listed for %d VMSAs: %v", cfg, c, err)
			}
		}
		if len(snp.GetSvsmMeasurement()) > 0 {
			if err := verify.SNP(golden, &verify.SNPOptions{Measurement: snp.SvsmMeasurement, ExpectedLaunchVMSAs: 1}); err != nil {
				r.Fail("listed-measurement-rejected", "svsm", "%s: signed SVSM measurement rejected for one VMSA: %v", cfg, err)
			}
		}
		// SevValidate end to end (go-sev-guest's validator with the derived policy and the
		// certificate-table validator) on a fabricated report, for a drawn listed count
		{
			c := counts[r.Intn(len(counts), "sevvalidate-count")]
			m := snp.Measurements[c]
			sctx := output.NewContext(context.Background(), &output.Options{Quiet: true})
			for _, named := range []uint32{0, c} {
				if named == 1 {
					continue
				}
				if err := gcetcbendorsement.SevValidate(sctx, attest.SnpAttestation(m, raw), &gcetcbendorsement.SevValidateOptions{RootsOfTrust: pool, Now: mid, ExpectedLaunchVmsas: named}); err != nil {
					r.Fail("listed-measurement-rejected", "SevValidate", "%s: SevValidate rejects a report carrying the measurement listed for %d VMSAs (count named: %d): %v", cfg, c, named, err)
				}
			}
		}
		if e.q.LaunchVmsas != 0 && len(snp.GetMeasurements()[e.q.LaunchVmsas]) != 48 {
			r.Fail("listed-measurement-rejected", "requested-count-missing", "%s: requested VMSA count %d is not listed", cfg, e.q.LaunchVmsas)
		}
	} else if e.q.SNP {
		r.Fail("listed-measurement-rejected", "snp-missing", "%s: SNP was requested but the signed document has no SNP section", cfg)
	}
	// every TDX row is accepted for its own RAM size and when no size is named
	if rows := golden.GetTdx().GetMeasurements(); len(rows) > 0 {
		row := rows[r.Intn(len(rows), "tdx-row")]
		tctx := output.NewContext(context.Background(), &output.Options{Quiet: true})
		for _, ram := range []int{0, int(row.GetRamGib())} {
			if err := gcetcbendorsement.TdxValidate(tctx, attest.TdxQuoteRaw(attest.TdxQuote(row.GetMrtd())), &gcetcbendorsement.TdxValidateOptions{Endorsement: &le, RootsOfTrust: pool, Now: mid, ExpectedRAMGiB: ram}); err != nil {
				r.Fail("listed-measurement-rejected", "TdxValidate", "%s: TdxValidate rejects a quote carrying the MRTD listed for %d GiB (size named: %d): %v", cfg, row.GetRamGib(), ram, err)
			}
		}
	} else if e.q.TDX {
		r.Fail("listed-measurement-rejected", "tdx-missing", "%s: TDX was requested but the signed document has no TDX rows", cfg)
	}
	// (c) the inspect commands emit the stored bytes verbatim
	for _, part := range []string{"payload", "signature", "cert"} {
		var buf bytes.Buffer
		ctx := gcetcbendorsement.WithInspect(context.Background(), &gcetcbendorsement.Inspect{Writer: gcetcbendorsement.NonterminalWriter{Writer: &buf}, Form: gcetcbendorsement.BytesRaw})
		var err error
		var want []byte
		switch part {
		case "payload":
			err, want = gcetcbendorsement.InspectPayload(ctx, &le), le.GetSerializedUefiGolden()
		case "signature":
			err, want = gcetcbendorsement.InspectSignature(ctx, &le), le.GetSignature()
		case "cert":
			err, want = gcetcbendorsement.InspectMask(ctx, &le, &fmpb.FieldMask{Paths: []string{"cert"}}), golden.GetCert()
		}
		if err != nil || !bytes.Equal(buf.Bytes(), want) {
			r.Fail("raw-bytes-differ", "inspect-"+part, "%s: inspect %s in bin form does not emit the stored field bytes (err=%v, %d vs %d bytes)", cfg, part, err, buf.Len(), len(want))
		}
	}
	if !bytes.Equal(golden.GetDigest(), e.q.Image.Digest[:]) {
		r.Fail("raw-bytes-differ", "digest", "%s: signed digest is not the SHA-384 of the supplied image", cfg)
	}
}

func sortU32(s []uint32) {
	for i := 1; i < len(s); i++ {
		for j := i; j > 0 && s[j] < s[j-1]; j-- {
			s[j], s[j-1] = s[j-1], s[j]
		}
	}
}
