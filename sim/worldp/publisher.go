// Package worldp simulates publication: endorse runs over an authority and a version-control
// back end (properties C03, C13, C14, C15).
package worldp

import (
	"bytes"
	"context"
	"encoding/hex"
	"fmt"
	"github.com/google/uuid"
	"io"
	"os"
	"path/filepath"
	"runtime/debug"
	"strings"
	"time"
	"verifsim/seams"

	"github.com/google/gce-tcb-verifier/cmd"
	"github.com/google/gce-tcb-verifier/cmd/output"
	"github.com/google/gce-tcb-verifier/endorse"
	"github.com/google/gce-tcb-verifier/keys"
	"github.com/google/gce-tcb-verifier/sev"
	styp "github.com/google/gce-tcb-verifier/sign/types"
	"github.com/google/gce-tcb-verifier/tdx"
	sgpb "github.com/google/go-sev-guest/proto/sevsnp"

	"verifsim/core"
	"verifsim/images"
	"verifsim/worlda"
)

// Req is one endorse run.
type Req struct {
	Image           *images.Image
	Candidate       string
	OutDir          string
	Overwrite       bool
	SnapshotDir     string
	DryRun          bool
	MeasurementOnly bool
	SNP, TDX        bool
	LaunchVmsas     uint32
	Genoa           bool
	Shapes          []string
	EarlyAccept     bool
	ClSpec          uint64
	Commit          []byte
	Timestamp       time.Time
	Retries         int
	Svsm            []byte
	ViaCLI          bool
	// BoolSpelling (command-line path) picks how boolean flags are written: 0 the bare flag; 1-6 one
	// of the other spellings the flag library takes for true (=true =1 =t =T =TRUE =True); 7-9 flags
	// that are off are spelled out as =false / =0 / =F instead of being left away.
	BoolSpelling int
	// Verbosity (library path): 0 quiet, 1 verbose, 2 neither (messages go to discarded writers).
	Verbosity int
	// Reuse, when set (library path), is an endorse.Context an earlier run already went through.
	Reuse *endorse.Context
	// SeedVCSs pre-populates Context.VCSs (the documented multi-back-end transition field).
	SeedVCSs []endorse.VersionControl
	// Interleave, when set (library path), runs once in the middle of signing: at the moment
	// SignDoc asks the certificate authority for the CA bundle (after it has read the primary key
	// version and its certificate, before it signs). It models a concurrent operator.
	// KeepGoing is the global --keep_going flag (recoverable errors are tolerated).
	KeepGoing  bool
	Interleave func()
	// WithCancel, when set, receives the cancel function of the context the (library) run executes
	// under: the caller may cancel while the run is in flight.
	WithCancel func(cancel func())
}

func (q Req) String() string {
	kg := ""
	if q.KeepGoing {
		kg = " keep_going"
	}
	if q.ViaCLI && q.BoolSpelling != 0 {
		kg += fmt.Sprintf(" bool-flag-spelling=%d", q.BoolSpelling)
	}
	return fmt.Sprintf("endorse(img=%s cand=%q ow=%v"+kg+" snap=%q dry=%v mo=%v snp=%v tdx=%v vmsas=%d shapes=%v ea=%v retries=%d cli=%v)",
		q.Image.Name, q.Candidate, q.Overwrite, q.SnapshotDir, q.DryRun, q.MeasurementOnly, q.SNP, q.TDX, q.LaunchVmsas, q.Shapes, q.EarlyAccept, q.Retries, q.ViaCLI)
}

// captureStdout runs f with os.Stdout redirected into a buffer (measurement-only output is
// printed with fmt.Print*, not through the output package).
func captureStdout(f func()) string {
	old := os.Stdout
	rd, wr, err := os.Pipe()
	if err != nil {
		f()
		return ""
	}
	os.Stdout = wr
	done := make(chan string)
	go func() {
		b, _ := io.ReadAll(rd)
		done <- string(b)
	}()
	func() {
		defer func() {
			os.Stdout = old
			wr.Close()
		}()
		f()
	}()
	s := <-done
	rd.Close()
	return s
}

// Endorse executes one endorse run as a fresh process over authority a, committing through vcs.
// scratch is a directory for the CLI's --uefi file.
func Endorse(r *core.Run, a *worlda.Authority, vcs endorse.VersionControl, q Req, scratch string) (stdout string, err error) {
	r.Eventf("op %s", q)
	// sev.canonicalizeRequest draws a random image GUID through google/uuid's package-level
	// reader (crypto/rand by default): pin it to the run, or the signed bytes differ per execution
	uuid.SetRand(core.NewDetReader(r.Seed ^ 0x1d1d ^ uint64(r.NEvents())<<16))
	defer uuid.SetRand(nil)
	// An endorse run that panics has neither succeeded nor reported an error: every property of this
	// world is stated over runs that end. (Simulated process crashes travel as seams.Crash and are
	// not touched; C15 reports a panicking run under its own class.)
	defer func() {
		if r.Property == "C15" {
			return
		}
		if p := recover(); p != nil {
			if _, isCrash := p.(seams.Crash); isCrash || fmt.Sprintf("%T", p) == "core.stopRun" {
				panic(p)
			}
			frames := strings.Split(string(debug.Stack()), "\n")
			at := ""
			for i, l := range frames {
				if strings.HasPrefix(l, "github.com/google/gce-tcb-verifier/") && i+1 < len(frames) {
					at = l[strings.LastIndex(l, "/")+1:]
					if j := strings.IndexByte(at, '('); j > 0 {
						at = at[:j]
					}
					break
				}
			}
			r.Fail("run-crashed", at, "%s: the endorse run panicked in %s: %v", q, at, p)
		}
	}()
	run := func() {
		if q.ViaCLI {
			err = endorseCLI(a, vcs, q, scratch)
		} else {
			err = endorseLib(a, vcs, q)
		}
	}
	if q.MeasurementOnly {
		stdout = captureStdout(run)
	} else {
		run()
	}
	res := "ok"
	if err != nil {
		res = "error"
	}
	r.Eventf("op endorse -> %s", res)
	return stdout, err
}

func endorseLib(a *worlda.Authority, vcs endorse.VersionControl, q Req) error {
	ec := q.Reuse
	if ec == nil {
		ec = BuildContext(vcs, q)
	} else {
		// a long-lived caller re-using its endorse.Context for another run: only the mode and the
		// per-run inputs change
		// (every exported input is set anew, field by field: whatever the Context keeps privately
		// from the earlier run stays)
		fresh := BuildContext(vcs, q)
		ec.DryRun, ec.MeasurementOnly, ec.SnapshotDir, ec.CandidateName, ec.Timestamp = q.DryRun, q.MeasurementOnly, q.SnapshotDir, q.Candidate, q.Timestamp
		ec.Image, ec.ImageName, ec.ClSpec, ec.Commit, ec.CommitRetries, ec.OutDir = fresh.Image, fresh.ImageName, fresh.ClSpec, fresh.Commit, fresh.CommitRetries, fresh.OutDir
		ec.SvsmSnpMeasurement, ec.SevSnp, ec.Tdx = fresh.SvsmSnpMeasurement, fresh.SevSnp, fresh.Tdx
		if ec.VCS == nil {
			ec.VCS = vcs
		}
	}
	if len(q.SeedVCSs) > 0 {
		ec.VCSs = append([]endorse.VersionControl(nil), q.SeedVCSs...)
	}
	v, err := a.View()
	if a.Decorate {
		v, err = a.DecoratedView()
	}
	if err != nil {
		return err
	}
	if q.Interleave != nil {
		if kc, kerr := keys.FromContext(v.Ctx); kerr == nil {
			kc.CA = &interleavingCA{CertificateAuthority: kc.CA, f: q.Interleave}
		}
	}
	base := v.Ctx
	if q.WithCancel != nil {
		// the caller's context can be cancelled while the run is in flight
		var cancel context.CancelFunc
		base, cancel = context.WithCancel(base)
		defer cancel()
		q.WithCancel(cancel)
	}
	oo := &output.Options{Quiet: true, Overwrite: q.Overwrite, KeepGoing: q.KeepGoing}
	switch q.Verbosity {
	case 1:
		oo.Quiet, oo.Verbose, oo.Out, oo.Err = false, true, io.Discard, io.Discard
	case 2:
		oo.Quiet, oo.Out, oo.Err = false, io.Discard, io.Discard
	}
	ctx := output.NewContext(base, oo)
	return endorse.VirtualFirmware(endorse.NewContext(ctx, ec))
}

// interleavingCA runs f once, inside the first CABundle call.
type interleavingCA struct {
	styp.CertificateAuthority
	f func()
}

func (c *interleavingCA) CABundle(ctx context.Context, name string) ([]byte, error) {
	if f := c.f; f != nil {
		c.f = nil
		f()
	}
	return c.CertificateAuthority.CABundle(ctx, name)
}

// BuildContext makes the endorse.Context a library caller would build for q.
func BuildContext(vcs endorse.VersionControl, q Req) *endorse.Context {
	ec := &endorse.Context{
		Image: q.Image.Bytes, ImageName: q.Image.Name, ClSpec: q.ClSpec, Commit: q.Commit,
		CandidateName: q.Candidate, Timestamp: q.Timestamp, VCS: vcs, CommitRetries: q.Retries,
		OutDir: q.OutDir, DryRun: q.DryRun, MeasurementOnly: q.MeasurementOnly, SnapshotDir: q.SnapshotDir,
		SvsmSnpMeasurement: q.Svsm,
	}
	if q.SNP {
		ec.SevSnp = &sev.SnpEndorsementRequest{LaunchVmsas: q.LaunchVmsas, Product: sgpb.SevProduct_SEV_PRODUCT_MILAN}
		if q.Genoa {
			ec.SevSnp.Product = sgpb.SevProduct_SEV_PRODUCT_GENOA
		}
	}
	if q.TDX {
		ec.Tdx = &tdx.EndorsementRequest{MachineShapes: q.Shapes, IncludeEarlyAccept: q.EarlyAccept}
	}
	return ec
}

// boolFlag writes one boolean flag in the spelling sp (see Req.BoolSpelling).
func boolFlag(name string, on bool, sp int) []string {
	switch {
	case on && sp >= 1 && sp <= 6:
		return []string{name + "=" + []string{"true", "1", "t", "T", "TRUE", "True"}[sp-1]}
	case on:
		return []string{name}
	case sp >= 7 && sp <= 9:
		return []string{name + "=" + []string{"false", "0", "F"}[sp-7]}
	}
	return nil
}

func endorseCLI(a *worlda.Authority, vcs endorse.VersionControl, q Req, scratch string) error {
	fw := filepath.Join(scratch, q.Image.Name)
	if _, err := os.Stat(fw); err != nil {
		if err := os.WriteFile(fw, q.Image.Bytes, 0o644); err != nil {
			return err
		}
	}
	args := []string{"--quiet", "--uefi", fw, "--out_dir", q.OutDir, "--timestamp", q.Timestamp.Format(time.RFC3339),
		"--commit_retries", fmt.Sprint(q.Retries)}
	if q.ClSpec != 0 {
		args = append(args, "--clspec", fmt.Sprint(q.ClSpec))
	}
	if len(q.Commit) != 0 {
		args = append(args, "--commit", hex.EncodeToString(q.Commit))
	}
	if q.Candidate != "" {
		args = append(args, "--candidate_name", q.Candidate)
	}
	sp := q.BoolSpelling
	args = append(args, boolFlag("--overwrite", q.Overwrite, sp)...)
	args = append(args, boolFlag("--keep_going", q.KeepGoing, sp)...)
	if q.SnapshotDir != "" {
		args = append(args, "--snapshot_dir", q.SnapshotDir)
	}
	args = append(args, boolFlag("--dry_run", q.DryRun, sp)...)
	args = append(args, boolFlag("--measurement_only", q.MeasurementOnly, sp)...)
	args = append(args, boolFlag("--add_snp", q.SNP, sp)...)
	if q.SNP {
		if q.LaunchVmsas != 0 {
			args = append(args, "--snp_launch_vmsas", fmt.Sprint(q.LaunchVmsas))
		}
		if q.Genoa {
			args = append(args, "--snp_product", "Genoa")
		}
	}
	args = append(args, boolFlag("--add_tdx", q.TDX, sp)...)
	if q.TDX {
		if len(q.Shapes) > 0 {
			args = append(args, "--tdx_machine_shapes", strings.Join(q.Shapes, ","))
		}
		args = append(args, boolFlag("--tdx_include_early_accept", q.EarlyAccept, sp)...)
	}
	if len(q.Svsm) != 0 {
		p := filepath.Join(scratch, "svsm-measurement.txt")
		os.WriteFile(p, []byte(hex.EncodeToString(q.Svsm)+"\n"), 0o644)
		args = append(args, "--svsm_snp_measurement_path", p)
	}
	extra := cmd.EndorseSetter(func(ec *endorse.Context) { ec.VCS = vcs })
	return a.RunEndorseCLI(extra, args)
}

// Scratch makes a per-run scratch directory removed at run end.
func Scratch(r *core.Run) string {
	d, err := os.MkdirTemp("", "verifsim-p-")
	if err != nil {
		panic(err)
	}
	r.Defer(func() { os.RemoveAll(d) })
	return d
}

var _ = bytes.Equal
var _ context.Context
