package worldp

import "github.com/google/gce-tcb-verifier/endorse"

// Hook H4: the signed payload is serialized with map entries in key order, so the bytes of every
// endorsement (and its signature, whose salt comes from the run's DetReader) are a function of
// the run's trace. Without it a failure that depends on those bytes cannot be replayed.
func init() { endorse.VerifDeterministicDoc = true }
