package worldp

import (
	"github.com/google/uuid"
	"bytes"
	"context"
	"fmt"
	"os"
	"path"
	"path/filepath"
	"sort"
	"strings"
	"time"

	"github.com/google/gce-tcb-verifier/endorse"
	epb "github.com/google/gce-tcb-verifier/proto/endorsement"
	rpb "github.com/google/gce-tcb-verifier/proto/releases"
	"github.com/google/gce-tcb-verifier/testing/nonprod/localnonvcs"
	"github.com/google/gce-tcb-verifier/timeproto"
	"google.golang.org/protobuf/encoding/prototext"
	"google.golang.org/protobuf/proto"

	"verifsim/core"
	"verifsim/images"
	"verifsim/seams"
	"verifsim/worlda"
)

func init() {
	core.Register(&core.Check{
		ID: "C13", World: "P (publication)", Level: "exploration",
		Rule: "one evaluation = one seeded history of up to 15 endorse runs over a pool of 2-4 images x 2-4 candidate names (incl. the default and one with a directory separator) x overwrite on/off x snapshot directory none/set, through SimVCS (library, with a fresh or one long-lived endorse.Context, and cobra command) and through localnonvcs on a scratch directory, where a run may also lose its k-th file write or have its k-th read fail with an I/O error (the files before it are written: the back end is not atomic); the manifest predicates are evaluated after EVERY run on the files visible through the back end; " +
			"non-trivial = at least 2 runs changed the repository; distinct by the sequence of abstract manifest states (set of (digest#, path))",
		Assumptions: []string{
			"SimVCS runs are fault-free (commit faults are C14's subject); runs may fail legitimately (existing file without --overwrite); on localnonvcs a run without --overwrite that loses a write must leave the manifest faithful, a run WITH --overwrite that loses a write ends the history unjudged (replace-then-fail cannot be consistent without atomic commits)",
			"'latest successful run is indexed' is evaluated right after manifest-mode runs only (snapshot mode bypasses the manifest by design)",
			"'existing endorsement file' = the manifest-indexed <out_dir>/<candidate>.binarypb files; snapshot-mode *.signed copies are rewritten unconditionally by design",
		},
		Components: []core.Component{
			{Name: "endorse.VirtualFirmware, commit.go merge rules, cmd endorse", Kind: "real"},
			{Name: "testing/nonprod/localnonvcs", Kind: "real", Note: "on a per-run scratch directory"},
			{Name: "memkm+memca authority", Kind: "real"},
			{Name: "version control", Kind: "stub", Note: "SimVCS (fault-free here)"},
		},
		Budget: core.StdBudget(1500, 100*time.Second, 200000, 9*time.Minute),
		Body:   runC13,
	})
}

// repoView is the oracle's look at the files visible through a back end.
type repoView interface {
	files() map[string][]byte
	vcs() endorse.VersionControl
	root() string
}

type simView struct{ v *seams.SimVCS }

func (s simView) files() map[string][]byte {
	out := map[string][]byte{}
	for k, b := range s.v.Head {
		out[k] = b
	}
	return out
}
func (s simView) vcs() endorse.VersionControl { return s.v }
func (s simView) root() string                { return s.v.Root }

type dirView struct {
	t   endorse.VersionControl
	dir string
}

// partialVCS makes the non-atomic back end fail in the middle of a run: the failAt-th file the
// run writes (counted over all its WriteOrCreateFiles calls) is not written, the files before it
// are (disk full, permission lost: localnonvcs applies files one after another).
type partialVCS struct {
	endorse.VersionControl
	r       *core.Run
	failAt  int
	written int
	fired   bool
	// failReadAt: the k-th ReadFile of the run fails with an I/O error that is NOT "not found"
	failReadAt int
	reads      int
	readFired  bool
	// meanwhile, when set, runs once, just before the run's first read of the manifest: another
	// operator's run going through in the middle of this one (the back end has no isolation)
	meanwhile func()
}

type partialOps struct {
	endorse.ChangeOps
	p *partialVCS
}

func (p *partialVCS) GetChangeOps(ctx context.Context) (endorse.ChangeOps, error) {
	ops, err := p.VersionControl.GetChangeOps(ctx)
	if err != nil {
		return nil, err
	}
	return &partialOps{ops, p}, nil
}

func (o *partialOps) ReadFile(ctx context.Context, path string) ([]byte, error) {
	p := o.p
	k := p.reads
	p.reads++
	if p.failReadAt >= 0 && k == p.failReadAt {
		p.readFired = true
		p.r.Fault("read-error", "read %d of the run: %s", k, filepath.Base(path))
		return nil, fmt.Errorf("simulated storage failure reading %s: input/output error", path)
	}
	if f := p.meanwhile; f != nil && strings.HasSuffix(path, endorse.ManifestFile) {
		p.meanwhile = nil
		f()
	}
	return o.ChangeOps.ReadFile(ctx, path)
}

func (o *partialOps) WriteOrCreateFiles(ctx context.Context, files ...*endorse.File) error {
	p := o.p
	if p.failAt >= 0 && !p.fired && p.written+len(files) > p.failAt {
		k := p.failAt - p.written
		p.fired = true
		p.r.Fault("partial-write", "file %d of the run (%d of %d in this call)", p.failAt, k, len(files))
		if k > 0 {
			if err := o.ChangeOps.WriteOrCreateFiles(ctx, files[:k]...); err != nil {
				return err
			}
		}
		p.written += k
		return fmt.Errorf("simulated storage failure writing %s", files[k].Path)
	}
	p.written += len(files)
	return o.ChangeOps.WriteOrCreateFiles(ctx, files...)
}

func (d dirView) files() map[string][]byte {
	out := map[string][]byte{}
	filepath.Walk(d.dir, func(p string, info os.FileInfo, err error) error {
		if err == nil && !info.IsDir() {
			b, _ := os.ReadFile(p)
			out[p] = b
		}
		return nil
	})
	return out
}
func (d dirView) vcs() endorse.VersionControl { return d.t }
func (d dirView) root() string                { return d.dir }

type manifestEntry struct {
	digest string
	path   string
}

// checkManifest evaluates the manifest predicates of C13 on a file set. It returns the abstract
// manifest state.
func checkManifest(r *core.Run, files map[string][]byte, outPath string, where string) ([]manifestEntry, bool) {
	raw, ok := files[path.Join(outPath, endorse.ManifestFile)]
	if !ok {
		return nil, false
	}
	m := &rpb.VMEndorsementMap{}
	if err := prototext.Unmarshal(raw, m); err != nil {
		r.Fail("manifest-unparseable", "manifest", "%s: manifest does not parse: %v", where, err)
		return nil, false
	}
	var entries []manifestEntry
	seenP, seenD := map[string]bool{}, map[string]bool{}
	for _, e := range m.Entries {
		d := fmt.Sprintf("%x", e.Digest)
		if seenP[e.Path] {
			r.Fail("duplicate-path", "manifest", "%s: path %q is listed twice", where, e.Path)
		}
		if seenD[d] {
			r.Fail("duplicate-digest", "manifest", "%s: digest %s... is listed twice", where, core.Short(d, 12))
		}
		seenP[e.Path], seenD[d] = true, true
		entries = append(entries, manifestEntry{d, e.Path})
		fb, ok := files[path.Join(outPath, e.Path)]
		if !ok {
			r.Fail("dangling-or-mismatched-entry", "missing-file", "%s: entry %q names a file that does not exist", where, e.Path)
			continue
		}
		le := &epb.VMLaunchEndorsement{}
		if err := proto.Unmarshal(fb, le); err != nil {
			r.Fail("dangling-or-mismatched-entry", "unparseable-file", "%s: file %q is not an endorsement: %v", where, e.Path, err)
			continue
		}
		g := &epb.VMGoldenMeasurement{}
		if err := proto.Unmarshal(le.GetSerializedUefiGolden(), g); err != nil {
			r.Fail("dangling-or-mismatched-entry", "unparseable-payload", "%s: payload of %q does not parse: %v", where, e.Path, err)
			continue
		}
		if !bytes.Equal(g.GetDigest(), e.Digest) {
			r.Fail("dangling-or-mismatched-entry", "digest-mismatch", "%s: entry %q lists digest %s... but the file's signed digest is %x...", where, e.Path, core.Short(d, 12), prefixOf(g.GetDigest(), 6))
		}
	}
	return entries, true
}

func indexOfImage(pool []*images.Image, im *images.Image) int {
	for i, p := range pool {
		if p == im {
			return i
		}
	}
	return 0
}

func errClass13(err error) string {
	if err == nil {
		return "ok"
	}
	return "error"
}

func prefixOf(b []byte, n int) []byte {
	if len(b) < n {
		return b
	}
	return b[:n]
}

func stateOf(entries []manifestEntry, pool []*images.Image) string {
	idx := map[string]int{}
	for i, im := range pool {
		idx[fmt.Sprintf("%x", im.Digest)] = i
	}
	var s []string
	for _, e := range entries {
		s = append(s, fmt.Sprintf("%d:%s", idx[e.digest], e.path))
	}
	sort.Strings(s)
	return strings.Join(s, ",")
}

// ordinaryDate: between 1971 and 2200. Outside that range the repository's own time conversion
// does not round-trip (timeproto.To writes negative nanoseconds before 1970 and overflows beyond
// the int64 nanosecond range), so the document's date is not used to recognise a run's file —
// its changelist number and digest are.
func ordinaryDate(t time.Time) bool { return t.Year() > 1970 && t.Year() < 2200 }

func runC13(r *core.Run) {
	a := worlda.NewAuthority(r, worlda.Config{KM: "memkm", CA: "memca", ViaCLI: true}, seams.NewPlanNone(r))
	if err, _ := a.Bootstrap(worlda.BootArgs{}); err != nil {
		r.HarnessErr = "bootstrap: " + err.Error()
		return
	}
	var view repoView
	var partial *partialVCS
	scratch := Scratch(r)
	backend := r.Intn(3, "backend")
	switch backend {
	case 0, 1:
		v := seams.NewSimVCS(r, "/release")
		// the second in-memory back end keeps the slices it is handed rather than copies
		v.Retain = backend == 1
		view = simView{v}
	default:
		d := filepath.Join(scratch, "repo")
		os.MkdirAll(d, 0o755)
		partial = &partialVCS{VersionControl: &localnonvcs.T{Root: d}, r: r, failAt: -1, failReadAt: -1}
		view = dirView{partial, d}
	}
	pool := images.Small()[:2+r.Intn(3, "pool-size")]
	// candidate names: the default, plain ones, and one with a directory separator (legal: the flag
	// is not validated and both back ends create parent directories)
	cands := []string{"", "rc1", "rel-7/RC00", "rc2", "rc  two spaces", "lib\xe9r\xe9-rc1", "./rc9", "rel//rc8"}[:2+r.Intn(7, "candidates")] // also: a legal file name that is not UTF-8, and names that are not in canonical path form
	n := 2 + r.Intn(14, "runs")
	if r.Tier != "thorough" && n > 10 {
		n = 10
	}
	outPath := path.Join(view.root(), "out")
	longLived := r.Chance(30, "long-lived-context?")
	var sharedCtx *endorse.Context
	if longLived {
		r.Probe("long-lived-context")
	}
	var hist []string
	changed := 0
	seq := ""
	for i := 0; i < n; i++ {
		// document timestamps: mostly advancing, sometimes pinned to the previous run's or backdated
		switch r.Intn(8, "clock") {
		case 0:
			r.Probe("pinned-timestamp")
		case 1:
			a.Now = a.Now.Add(-time.Duration(1+r.Intn(7200, "backdate-s")) * time.Second)
			r.Probe("backdated-timestamp")
		default:
			a.Now = a.Now.Add(time.Duration(1+r.Intn(100000, "advance-s")) * time.Second)
		}
		q := Req{Image: pool[r.Intn(len(pool), "image")], Candidate: cands[r.Intn(len(cands), "candidate")], OutDir: "out",
			Overwrite: r.Bool("overwrite"), SNP: true, LaunchVmsas: []uint32{2, 2, 0}[r.Intn(3, "vmsas")] /* 0 = every count: a much longer document */, ClSpec: uint64(i + 1), Timestamp: a.Now, Retries: 0,
			ViaCLI: backend == 1 && r.Bool("via-cli")}
		if r.Chance(20, "snapshot?") {
			q.SnapshotDir = "snap"
		}
		if !q.ViaCLI && r.Chance(8, "odd-document-date?") {
			// (library path) the document date is the request's: before 1970 with a fraction of a second,
			// or far ahead. The manifest's create_time follows it.
			q.Timestamp = []time.Time{time.Unix(-1, 500_000_000).UTC(), time.Date(1969, 7, 20, 20, 17, 40, 250_000_000, time.UTC), time.Date(12000, 1, 1, 0, 0, 0, 0, time.UTC)}[r.Intn(3, "odd-document-date")]
		}
		q.KeepGoing = r.Chance(15, "keep-going?")
		if longLived && !q.ViaCLI {
			// one long-lived endorse.Context serves every run of the history
			if sharedCtx == nil {
				sharedCtx = BuildContext(view.vcs(), q)
			}
			q.Reuse = sharedCtx
		}
		before := view.files()
		if partial != nil {
			partial.failAt, partial.written, partial.fired = -1, 0, false
			partial.failReadAt, partial.reads, partial.readFired = -1, 0, false
			if r.Chance(20, "partial-write?") {
				partial.failAt = r.Intn(4, "fail-at-file")
			} else if r.Chance(15, "read-error?") {
				partial.failReadAt = r.Intn(3, "fail-at-read")
			}
		}
		// (write-through back end) another operator's run for the same candidate name, another image,
		// goes through completely while this run is in the middle of its own; neither has --overwrite.
		// Whoever creates the file first keeps it.
		var rivalFile string
		var rivalBytes []byte
		if partial != nil && partial.failAt < 0 && partial.failReadAt < 0 && !q.Overwrite && !q.KeepGoing && q.SnapshotDir == "" && !q.ViaCLI && q.Reuse == nil && r.Chance(12, "rival-run-in-the-middle?") {
			dv := view.(dirView)
			rq := q
			rq.Image = pool[(indexOfImage(pool, q.Image)+1)%len(pool)]
			rq.ClSpec = q.ClSpec + 1000
			partial.meanwhile = func() {
				_, rerr := Endorse(r, a, &localnonvcs.T{Root: dv.dir}, rq, scratch)
				uuid.SetRand(core.NewDetReader(r.Seed ^ 0x2e2e ^ uint64(r.NEvents())<<16)) // the inner run reset it
				base := rq.Candidate
				if base == "" {
					base = endorse.DefaultEndorsementBasename
				}
				if rerr == nil {
					rivalFile = path.Join(outPath, base+".binarypb")
					rivalBytes = append([]byte(nil), view.files()[rivalFile]...)
				}
				r.Eventf("rival run in the middle -> %s", errClass13(rerr))
				r.Probe("rival-run-in-the-middle")
			}
		}
		_, err := Endorse(r, a, view.vcs(), q, scratch)
		if partial != nil {
			partial.meanwhile = nil
		}
		after := view.files()
		if rivalBytes != nil && !bytes.Equal(after[rivalFile], rivalBytes) {
			r.Fail("clobber-without-overwrite", "rival-file", "backend %d after run %d %s -> %v: another run created %s while this one was under way; without --overwrite this run replaced it", backend, i+1, q, err, rivalFile)
		}
		faulted := partial != nil && partial.fired
		if faulted && err == nil {
			r.Probe("run-succeeded-despite-failed-write")
		}
		if faulted && q.Overwrite {
			// Replacing a listed file and then failing before the manifest is rewritten cannot be
			// made consistent on a back end without atomic commits: nothing is claimed about it,
			// and the history ends here.
			r.Probe("partial-overwrite-run-ends-history")
			break
		}
		where := fmt.Sprintf("backend %d after run %d %s -> %v", backend, i, q, err)
		hist = append(hist, fmt.Sprintf("%s/%q/ow=%v/snap=%v->%s", q.Image.Name, q.Candidate, q.Overwrite, q.SnapshotDir != "", map[bool]string{true: "ok", false: "err"}[err == nil]))
		entries, has := checkManifest(r, after, outPath, where)
		base := q.Candidate
		if base == "" {
			base = endorse.DefaultEndorsementBasename
		}
		base += ".binarypb"
		if err == nil && q.SnapshotDir == "" {
			changed++
			if !has {
				r.Fail("latest-run-not-indexed", "no-manifest", "%s: the run succeeded but there is no manifest", where)
			}
			want := fmt.Sprintf("%x", q.Image.Digest)
			found := ""
			for _, e := range entries {
				if e.digest == want {
					found = e.path
				}
			}
			if found != base {
				r.Fail("latest-run-not-indexed", "wrong-path", "%s: the image's digest maps to %q, the run wrote %q", where, found, base)
			}
			// the file holds this run's endorsement (its changelist number is unique per run)
			le := &epb.VMLaunchEndorsement{}
			g := &epb.VMGoldenMeasurement{}
			if fb, ok := after[path.Join(outPath, base)]; !ok || proto.Unmarshal(fb, le) != nil || proto.Unmarshal(le.GetSerializedUefiGolden(), g) != nil ||
				g.GetClSpec() != q.ClSpec || (ordinaryDate(q.Timestamp) && !timeproto.From(g.GetTimestamp()).Equal(q.Timestamp.Truncate(time.Nanosecond))) || !bytes.Equal(g.GetDigest(), q.Image.Digest[:]) {
				r.Fail("latest-run-not-indexed", "stale-file", "%s: %q does not hold the endorsement this run produced", where, base)
			}
		} else if err == nil {
			changed++
		}
		if !q.Overwrite {
			for _, p := range core.SortedKeys(before) {
				if !strings.HasPrefix(p, outPath+"/") || !strings.HasSuffix(p, ".binarypb") {
					continue
				}
				if nb, ok := after[p]; !ok || !bytes.Equal(nb, before[p]) {
					r.Fail("clobber-without-overwrite", "endorsement-file", "%s: existing endorsement file %s was replaced or removed without --overwrite", where, p)
				}
			}
		}
		st := stateOf(entries, images.Small())
		r.State(st)
		seq += st + "|"
	}
	r.Eval(seq, changed >= 2)
	r.Sample = map[string]any{"backend": []string{"SimVCS/lib", "SimVCS/lib+cli", "localnonvcs"}[backend], "history": hist}
}
