package worldp

import (
	"bytes"
	"context"
	"errors"
	"fmt"
	"math"
	"os"
	"path"
	"strings"
	"time"

	"github.com/google/gce-tcb-verifier/endorse"
	epb "github.com/google/gce-tcb-verifier/proto/endorsement"
	rpb "github.com/google/gce-tcb-verifier/proto/releases"
	"google.golang.org/protobuf/encoding/prototext"
	"google.golang.org/protobuf/proto"

	"verifsim/core"
	"verifsim/images"
	"verifsim/seams"
	"verifsim/worlda"
)

// (the last two are the extremes of the flag's type: drawn by random runs only)
var c14Budgets = []int{-2, -1, 0, 1, 2, 3, 5, math.MinInt, math.MinInt + 1}

// Per-attempt options: 0 = no interference; 1..7 retriable failure of seam call #(opt-1) of the
// attempt; 8..14 permanent failure of call #(opt-8); 15..21 a concurrent writer commits a
// manifest change just before call #(opt-15) of the attempt.
const (
	c14CallsPerAttempt = 7
	c14Options         = 1 + 3*c14CallsPerAttempt
)

func init() {
	core.Register(&core.Check{
		ID: "C14", World: "P (publication)", Level: "fault_enumeration",
		Rule: "one evaluation = one submission (endorse.VirtualFirmware over SimVCS) under a per-attempt outcome script: each attempt either runs undisturbed, has one of its 7 seam calls (GetChangeOps, manifest read, existence read, endorsement write, mode change, manifest write, TryCommit) fail retriably or permanently, or has a second writer commit a manifest change before one of those calls (conflict at commit); " +
			"planned runs enumerate EVERY effective script (k retriable attempts followed by a success, a permanent failure or budget exhaustion) for retry budgets -2..2 (thorough: ..3); random runs draw scripts for all budgets incl. 5 with several interferences; " +
			"oracle on SimVCS's call log and head: attempt bound, retry only after retriable errors, per-attempt workspace and manifest read, no lost concurrent entries, Destroy of every failed attempt's workspace, success reported iff a TryCommit succeeded and Result recorded exactly once with its value; non-trivial = at least one interference fired; distinct by event fingerprint",
		Exhaustive: "all effective single-interference-per-attempt scripts for budgets -2..2 (quick) / -2..3 (thorough)",
		Assumptions: []string{
			"a negative retry budget is read as zero retries (one attempt is always made)",
			"SimVCS semantics: snapshot workspaces; TryCommit conflicts (retriably) when a file the workspace read or wrote changed in head since workspace creation; a commit is atomic",
			"dry-run submissions are C15's subject, not C14's",
		},
		Components: []core.Component{
			{Name: "endorse.VirtualFirmware / RetrySubmit / tryChange / changeEndorsements", Kind: "real"},
			{Name: "endorse.SignDoc over memkm+memca", Kind: "real"},
			{Name: "version control back end + second writer", Kind: "stub", Note: "SimVCS"},
		},
		Plans:  c14Plans,
		Budget: core.StdBudget(2500, 100*time.Second, 300000, 9*time.Minute),
		Body:   runC14,
	})
}

func c14Prefix(budgetIdx int, opts []int) core.Trace {
	t := core.Trace{{L: "cancel", N: c14CancelModes, V: 0}, {L: "budget", N: len(c14Budgets), V: budgetIdx}, {L: "keypool-base", N: 40, V: 0},
		// (planned scripts: plain back-end errors, a first submission)
		{L: "errors-wrap-a-cause?", N: 100, V: 0}, {L: "resubmission?", N: 100, V: 0}}
	for _, o := range opts {
		if o == 0 {
			t = append(t, core.Choice{L: "interfere?", N: 3, V: 0})
		} else {
			t = append(t, core.Choice{L: "interfere?", N: 3, V: 1}, core.Choice{L: "attempt-option", N: c14Options - 1, V: o - 1})
		}
	}
	return t
}

func c14Plans(tier string) []core.Trace {
	maxBudgetIdx := 4 // budgets -2,-1,0,1,2
	if tier == "thorough" {
		maxBudgetIdx = 5
	}
	var retri, term []int
	for c := 0; c < c14CallsPerAttempt; c++ {
		retri = append(retri, 1+c)                      // retriable failure
		retri = append(retri, 1+2*c14CallsPerAttempt+c) // concurrent writer (conflict unless it lands before GetChangeOps)
		term = append(term, 1+c14CallsPerAttempt+c)     // permanent failure
	}
	term = append(term, 0) // success
	var out []core.Trace
	for bi := 0; bi <= maxBudgetIdx; bi++ {
		maxAttempts := c14Budgets[bi] + 1
		if maxAttempts < 1 {
			maxAttempts = 1
		}
		var rec func(prefix []int)
		rec = func(prefix []int) {
			for _, t := range term {
				out = append(out, c14Prefix(bi, append(append([]int(nil), prefix...), t)))
			}
			if len(prefix) < maxAttempts { // maxAttempts retriable failures, then a further scripted outcome that must never be consumed
				for _, o := range retri {
					rec(append(append([]int(nil), prefix...), o))
				}
			}
		}
		rec(nil)
	}
	return out
}

// Caller-side cancellation (random runs only; planned scripts use mode 0): 0-3 the context is
// never cancelled; 4 it is cancelled while the first commit request is in flight; 5 while the
// second attempt's workspace is being created; 6 during the first manifest write.
const c14CancelModes = 12 // 11: a concurrent writer takes the very file name (runC14SameName); 7, 8: two version-control back ends (runC14Multi); 9, 10: a snapshot-mode submission

type c14Script struct {
	runaway    bool
	cancelMode int
	cancel     func()
	cancelled  bool
	r          *core.Run
	vcs        *seams.SimVCS
	attempt    int // GetChangeOps calls seen
	pos        int // seam calls seen in the current attempt
	opt        int
	writers    int
	random     bool
	extra      int // extra interferences allowed in random mode
	manifest   string
}

func (s *c14Script) startAttempt() {
	s.attempt++
	s.pos = 0
	s.opt = 0
	if s.r.Intn(3, "interfere?") != 0 {
		s.opt = 1 + s.r.Intn(c14Options-1, "attempt-option")
	}
}

func (s *c14Script) between(site string, ws int) {
	if site == "GetChangeOps" {
		s.startAttempt()
	}
	if s.cancel != nil && !s.cancelled {
		if (s.cancelMode == 4 && site == "TryCommit") || (s.cancelMode == 5 && site == "GetChangeOps" && s.attempt == 2) ||
			(s.cancelMode == 6 && site == "WriteOrCreateFiles" && s.pos >= 5) {
			s.cancelled = true
			s.r.Fault("caller-cancels", "attempt %d during %s", s.attempt, site)
			s.cancel()
		}
	}
	if s.opt > 2*c14CallsPerAttempt && s.pos == s.opt-1-2*c14CallsPerAttempt {
		s.writerCommit()
	}
}

func (s *c14Script) decide(site string, ws int) seams.Decision {
	p := s.pos
	s.pos++
	if s.attempt > 64 {
		// far beyond any budget the check draws: stop the loop so that the run ends and reports it
		s.runaway = true
		return seams.Decision{Fail: true, Retriable: false}
	}
	switch {
	case s.opt >= 1 && s.opt <= c14CallsPerAttempt && p == s.opt-1:
		return seams.Decision{Fail: true, Retriable: true}
	case s.opt > c14CallsPerAttempt && s.opt <= 2*c14CallsPerAttempt && p == s.opt-1-c14CallsPerAttempt:
		return seams.Decision{Fail: true, Retriable: false}
	}
	return seams.Decision{}
}

// writerCommit is the second writer: it appends its own entry to the head manifest.
func (s *c14Script) writerCommit() {
	s.writers++
	m := &rpb.VMEndorsementMap{}
	if raw, ok := s.vcs.Head[s.manifest]; ok {
		if err := prototext.Unmarshal(raw, m); err != nil {
			s.r.HarnessErr = "second writer cannot parse head manifest: " + err.Error()
			return
		}
	}
	name := fmt.Sprintf("writer-%d.binarypb", s.writers)
	m.Entries = append(m.Entries, &rpb.VMEndorsementMap_Entry{Digest: bytes.Repeat([]byte{byte(0xA0 + s.writers)}, 48), Path: name})
	txt, _ := prototext.Marshal(m)
	s.r.Fault("concurrent-commit", "attempt %d before call %d", s.attempt, s.pos)
	s.vcs.ExternalCommit(map[string][]byte{s.manifest: txt, path.Join(path.Dir(s.manifest), name): []byte("writer endorsement")})
}

func manifestPaths(raw []byte) (map[string]string, error) {
	m := &rpb.VMEndorsementMap{}
	if err := prototext.Unmarshal(raw, m); err != nil {
		return nil, err
	}
	out := map[string]string{}
	for _, e := range m.Entries {
		out[e.Path] = fmt.Sprintf("%x", e.Digest)
	}
	return out, nil
}

// c14CommitRepr draws, when a commit lands, what the back end hands back for it: `TryCommit`
// returns `any`, and nil (nothing to tell) or a zero value are as legal as a revision string.
func c14CommitRepr(r *core.Run) func(int) any {
	return func(rev int) any {
		switch r.Intn(5, "commit-representation") {
		case 3:
			r.Probe("commit-representation-nil")
			return nil
		case 4:
			return rev - rev // an integer id that happens to be zero
		}
		return fmt.Sprintf("rev-%d", rev)
	}
}

// runC14SameName: while the first attempt is under way, somebody else commits an endorsement under
// the very file name this submission is about to use (the default name, say), with its manifest
// entry. The submission has no --overwrite. Its first commit conflicts; the attempt that follows
// starts from a fresh workspace, finds the name taken and must leave the other writer's file alone.
func runC14SameName(r *core.Run) {
	a := worlda.NewAuthority(r, worlda.Config{KM: "memkm", CA: "memca"}, seams.NewPlanNone(r))
	if err, _ := a.Bootstrap(worlda.BootArgs{}); err != nil {
		r.HarnessErr = "bootstrap: " + err.Error()
		return
	}
	vcs := seams.NewSimVCS(r, "/release")
	manifest := "/release/out/" + endorse.ManifestFile
	theirs := []byte("the other writer's endorsement of another firmware")
	at := []string{"ReadFile", "WriteOrCreateFiles", "SetBinaryWritable", "TryCommit"}[r.Intn(4, "writer-lands-before")]
	landed := false
	vcs.Between = func(site string, ws int) {
		if landed || ws != 1 || site != at {
			return
		}
		landed = true
		m := &rpb.VMEndorsementMap{Entries: []*rpb.VMEndorsementMap_Entry{{Digest: bytes.Repeat([]byte{0xB7}, 48), Path: "c14.binarypb"}}}
		txt, _ := prototext.Marshal(m)
		r.Fault("concurrent-commit", "same file name, before %s of attempt 1", site)
		vcs.ExternalCommit(map[string][]byte{manifest: txt, "/release/out/c14.binarypb": theirs})
	}
	budget := 1 + r.Intn(3, "same-name-budget")
	q := Req{Image: images.Pool()[0], OutDir: "out", Candidate: "c14", SNP: true, LaunchVmsas: 2, ClSpec: 7, Timestamp: a.Now, Retries: budget}
	_, err := Endorse(r, a, vcs, q, "")
	vcs.Between = nil
	r.Eval(r.Fingerprint(), landed)
	r.Probe("same-name-concurrent-writer")
	if !landed {
		return
	}
	if now := vcs.Head["/release/out/c14.binarypb"]; !bytes.Equal(now, theirs) {
		r.Fail("stale-manifest-lost-update", "overwrote-concurrent-file", "budget %d, result %v: another writer committed c14.binarypb while the first attempt was under way; without --overwrite the file is theirs to keep, yet head now holds %d other bytes", budget, err, len(now))
	}
	if got, perr := manifestPaths(vcs.Head[manifest]); perr != nil || got["c14.binarypb"] != fmt.Sprintf("%x", bytes.Repeat([]byte{0xB7}, 48)) {
		r.Fail("stale-manifest-lost-update", "entry-dropped", "budget %d, result %v: the other writer's manifest entry for c14.binarypb was dropped or rewritten (%v)", budget, err, perr)
	}
	if err == nil {
		r.Fail("success-misreported", "same-name", "budget %d: success was reported although the file name was taken by another writer and --overwrite was not given", budget)
	}
}

func runC14(r *core.Run) {
	cancelMode := r.Intn(c14CancelModes, "cancel")
	if cancelMode == 7 || cancelMode == 8 {
		runC14Multi(r)
		return
	}
	if cancelMode == 11 {
		runC14SameName(r)
		return
	}
	budget := c14Budgets[r.Intn(len(c14Budgets), "budget")]
	a := worlda.NewAuthority(r, worlda.Config{KM: "memkm", CA: "memca"}, seams.NewPlanNone(r))
	if err, _ := a.Bootstrap(worlda.BootArgs{}); err != nil {
		r.HarnessErr = "bootstrap: " + err.Error()
		return
	}
	vcs := seams.NewSimVCS(r, "/release")
	manifest := "/release/out/" + endorse.ManifestFile
	// A pre-existing, well-formed manifest with one foreign entry.
	pre := &rpb.VMEndorsementMap{Entries: []*rpb.VMEndorsementMap_Entry{{Digest: bytes.Repeat([]byte{0x99}, 48), Path: "old.binarypb"}}}
	txt, _ := prototext.Marshal(pre)
	vcs.ExternalCommit(map[string][]byte{manifest: txt, "/release/out/old.binarypb": []byte("old endorsement")})
	sc := &c14Script{r: r, vcs: vcs, manifest: manifest, cancelMode: cancelMode}
	vcs.Between, vcs.Decide = sc.between, sc.decide
	vcs.CommitRepr = c14CommitRepr(r)
	// the back end's errors may wrap a lower-level cause that, on its own, it would class the other
	// way (a permanent "permission denied" around a transient RPC error; a retriable conflict around
	// a plain error): the back end speaks for its own error
	if r.Chance(30, "errors-wrap-a-cause?") {
		wrapKind := r.Intn(3, "wrapped-cause")
		vcs.WrapCause = func(retriable bool) error {
			if retriable {
				return errors.New("rpc error: connection reset by peer")
			}
			// (under a permanent error: a transient back-end error, or a plain timeout)
			return []error{&seams.VCSError{Site: "transport", Retriable: true}, context.DeadlineExceeded, os.ErrDeadlineExceeded}[wrapKind]
		}
	}
	startCalls, startSpaces := len(vcs.Calls), len(vcs.Spaces)
	var fileBefore []byte // (resubmission) the endorsement file the earlier submission committed
	img := images.Pool()[0]
	q := Req{Image: img, OutDir: "out", Candidate: "c14", SNP: true, LaunchVmsas: 2, ClSpec: 7, Timestamp: a.Now, Retries: budget}
	snapshot := cancelMode >= 9
	// a forced re-run of a submission that already landed: same candidate, same image, same
	// timestamp, --overwrite. The manifest it renders equals the one it reads; the endorsement
	// file is signed anew. It is a submission like any other.
	if cancelMode < 4 && r.Chance(12, "resubmission?") {
		vcs.Between, vcs.Decide = nil, nil
		if _, perr := Endorse(r, a, vcs, q, ""); perr != nil {
			r.HarnessErr = "fault-free first submission failed: " + perr.Error()
			return
		}
		q.Overwrite = true
		vcs.Between, vcs.Decide = sc.between, sc.decide
		vcs.Results, startCalls, startSpaces = nil, len(vcs.Calls), len(vcs.Spaces)
		fileBefore = append([]byte(nil), vcs.Head["/release/out/c14.binarypb"]...)
		sc.attempt = 0
		r.Probe("resubmission")
	}
	if snapshot {
		// snapshot mode: firmware, signed endorsement and event files go to a directory of their
		// own; no manifest is involved, the attempt/retry/workspace rules are the same
		q.SnapshotDir = "snap"
		r.Probe("snapshot-mode-submission")
	}
	if cancelMode >= 4 && cancelMode < 7 {
		q.WithCancel = func(c func()) { sc.cancel = c }
	}
	_, err := Endorse(r, a, vcs, q, "")
	vcs.Between, vcs.Decide = nil, nil

	// ---- oracle over the call log ----
	calls := vcs.Calls[startCalls:]
	type att struct {
		ws          int
		getErr      error
		lastErr     error
		endErr      error // error of the attempt's last seam call (nil when that call succeeded)
		commits     int   // TryCommit calls on this attempt's workspace
		readManif   bool
		wroteManif  bool
		commitOK    bool
		commitVal   any
		destroyed   int
		manifBefore bool // manifest read happened before the manifest write
	}
	var atts []*att
	byWS := map[int]*att{}
	for _, c := range calls {
		switch {
		case c.Name == "GetChangeOps":
			x := &att{getErr: c.Err}
			if c.Err == nil {
				x.ws = len(vcs.Spaces) // provisional; fixed below
			}
			x.lastErr, x.endErr = c.Err, c.Err
			atts = append(atts, x)
		}
	}
	// map workspaces to attempts in creation order
	wsIdx := startSpaces
	for _, x := range atts {
		if x.getErr == nil {
			wsIdx++
			x.ws = wsIdx
			byWS[x.ws] = x
		}
	}
	for _, c := range calls {
		x := byWS[c.Workspace]
		if x == nil {
			continue
		}
		if c.Err != nil {
			var ve *seams.VCSError
			if !(asVCS(c.Err, &ve) && ve.NotFound) {
				x.lastErr = c.Err
			}
		}
		if c.Name != "Destroy" {
			x.endErr = c.Err
		}
		switch c.Name {
		case "ReadFile":
			if c.Arg == manifest {
				x.readManif = true
			}
		case "WriteOrCreateFiles":
			if strings.Contains(c.Arg, manifest) {
				x.wroteManif = true
				x.manifBefore = x.readManif
			}
		case "TryCommit":
			x.commits++
			if c.Err == nil {
				x.commitOK = true
			}
		case "Destroy":
			x.destroyed++
		}
	}
	for _, w := range vcs.Spaces {
		if x := byWS[w.ID]; x != nil && w.Committed {
			x.commitVal = w.CommitID
		}
	}
	fired := 0
	for _, n := range r.Faults {
		fired += n
	}
	r.Eval(r.Fingerprint(), fired > 0)
	where := fmt.Sprintf("budget %d, %d attempts, result %v", budget, len(atts), err)
	allowed := budget + 1
	if allowed < 1 {
		allowed = 1
	}
	if sc.runaway {
		r.Fail("too-many-attempts", "unbounded", "budget %d: more than 64 attempts were started (the loop was stopped by a permanent failure injected at attempt 65)", budget)
	}
	if len(atts) > allowed {
		r.Fail("too-many-attempts", "RetrySubmit", "%s: %d attempts were made, at most %d are allowed", where, len(atts), allowed)
	}
	if len(atts) == 0 {
		r.Fail("success-misreported", "no-attempt", "%s: no attempt was made at all", where)
	}
	succeeded := 0
	var okVal any
	for i, x := range atts {
		if x.commitOK {
			succeeded++
			okVal = x.commitVal
		}
		if i > 0 {
			prev := atts[i-1]
			switch {
			case prev.commitOK:
				r.Fail("success-misreported", "retry-after-success", "%s: attempt %d was started although attempt %d had committed", where, i+1, i)
			case prev.lastErr == nil:
				r.Fail("retry-after-permanent", "retry-without-error", "%s: attempt %d was started although attempt %d saw no error", where, i+1, i)
			case !vcs.RetriableError(prev.lastErr):
				r.Fail("retry-after-permanent", "RetrySubmit", "%s: attempt %d was started after a non-retriable error (%v)", where, i+1, prev.lastErr)
			}
		}
		if x.getErr != nil {
			continue
		}
		if !snapshot && x.wroteManif && !x.manifBefore {
			r.Fail("stale-manifest-lost-update", "manifest-not-reread", "%s: attempt %d rewrote the manifest without reading it in its own workspace", where, i+1)
		}
		if x.commits > 1 {
			// a second commit try is a second attempt, and it did not start from a fresh workspace
			r.Fail("too-many-attempts", "recommit-from-the-same-workspace", "%s: the workspace of attempt %d was submitted %d times: a failed commit is retried from a fresh workspace that re-reads the manifest, not from the stale one", where, i+1, x.commits)
		}
		if !x.commitOK && x.destroyed == 0 {
			r.Fail("workspace-leaked", "tryChange", "%s: the workspace of failed attempt %d was never destroyed", where, i+1)
		}
	}
	if (err == nil) != (succeeded > 0) {
		r.Fail("success-misreported", "RetrySubmit", "%s: submission returned %v but %d commits succeeded", where, err, succeeded)
	}
	// Progress while budget remains: the last thing the final attempt did with the back end was a
	// call that failed with an error the back end marks retriable, the caller did not cancel, and
	// attempts were left — the submission gave up although the budget says to try again.
	if n := len(atts); n > 0 && n < allowed && err != nil && succeeded == 0 && !sc.cancelled && !sc.runaway {
		if last := atts[n-1]; last.endErr != nil && vcs.RetriableError(last.endErr) {
			r.Fail("gave-up-on-retriable", "RetrySubmit", "%s: attempt %d ended with a failure the back end marks retriable (%v) and %d attempts were left, but no further attempt was made", where, n, last.endErr, allowed-n)
		}
	}
	if succeeded > 1 {
		r.Fail("success-misreported", "double-commit", "%s: %d commits succeeded", where, succeeded)
	}
	if succeeded == 1 {
		if len(vcs.Results) != 1 {
			r.Fail("result-recorded-≠1", "Result", "%s: Result was called %d times for one successful commit", where, len(vcs.Results))
		} else if vcs.Results[0].Commit != okVal {
			r.Fail("result-recorded-≠1", "Result-value", "%s: Result recorded %v, the successful TryCommit returned %v", where, vcs.Results[0].Commit, okVal)
		}
		if snapshot {
			if _, ok := vcs.Head["/release/snap/"+img.Name+".signed"]; !ok {
				r.Fail("success-misreported", "snapshot-file-missing", "%s: the commit succeeded but the signed endorsement is not in the snapshot directory", where)
			}
			r.State(fmt.Sprintf("snapshot b=%d a=%d ok=%d", budget, len(atts), succeeded))
			return
		}
		// no lost update: head manifest lists the pre-existing entry, every writer entry and ours
		got, perr := manifestPaths(vcs.Head[manifest])
		if perr != nil {
			r.Fail("stale-manifest-lost-update", "manifest-unparseable", "%s: head manifest does not parse: %v", where, perr)
		}
		want := []string{"old.binarypb", "c14.binarypb"}
		for i := 1; i <= sc.writers; i++ {
			want = append(want, fmt.Sprintf("writer-%d.binarypb", i))
		}
		for _, p := range want {
			if _, ok := got[p]; !ok {
				r.Fail("stale-manifest-lost-update", "entry-dropped", "%s: manifest entry %q is missing from the committed manifest (%d concurrent commits)", where, p, sc.writers)
			}
		}
	} else if len(vcs.Results) != 0 {
		r.Fail("result-recorded-≠1", "Result-without-commit", "%s: Result was called %d times although no commit succeeded", where, len(vcs.Results))
	}
	// whatever the script did, the committed head stays a faithful index (the C13 predicates):
	// a failed or conflicting attempt must not leave a half-applied change behind
	if raw, ok := vcs.Head[manifest]; ok {
		m := &rpb.VMEndorsementMap{}
		if err := prototext.Unmarshal(raw, m); err != nil {
			r.Fail("stale-manifest-lost-update", "manifest-unparseable", "%s: head manifest does not parse: %v", where, err)
		}
		seenP, seenD := map[string]bool{}, map[string]bool{}
		for _, e := range m.Entries {
			d := fmt.Sprintf("%x", e.Digest)
			if seenP[e.Path] || seenD[d] {
				r.Fail("stale-manifest-lost-update", "duplicate-entry", "%s: head manifest lists %q / digest %s... twice", where, e.Path, core.Short(d, 12))
			}
			seenP[e.Path], seenD[d] = true, true
			if e.Path == "c14.binarypb" {
				fb, ok := vcs.Head["/release/out/c14.binarypb"]
				le, g := &epb.VMLaunchEndorsement{}, &epb.VMGoldenMeasurement{}
				if !ok || proto.Unmarshal(fb, le) != nil || proto.Unmarshal(le.GetSerializedUefiGolden(), g) != nil || !bytes.Equal(g.GetDigest(), e.Digest) {
					r.Fail("success-misreported", "entry-without-file", "%s: the manifest lists our endorsement but the file is missing or carries another digest", where)
				}
			}
		}
	}
	if succeeded == 0 {
		// (after an earlier submission the file is there already: then it must be that one's, untouched)
		if now, leaked := vcs.Head["/release/out/c14.binarypb"]; leaked && !(fileBefore != nil && bytes.Equal(now, fileBefore)) {
			r.Fail("success-misreported", "partial-commit", "%s: no commit succeeded, yet the endorsement file is in the repository head", where)
		}
	}
	if sc.writers > 0 && succeeded == 1 {
		r.Probe("committed-after-concurrent-writer")
	}
	if len(atts) == allowed && succeeded == 1 && len(atts) > 1 {
		r.Probe("success-on-last-allowed-attempt")
	}
	if err != nil && len(atts) == allowed {
		r.Probe("budget-exhausted-or-last-attempt-failed")
	}
	r.State(fmt.Sprintf("b=%d a=%d ok=%d w=%d", budget, len(atts), succeeded, sc.writers))
	r.Sample = map[string]any{"budget": budget, "attempts": len(atts), "succeeded": succeeded, "concurrent_commits": sc.writers, "result": fmt.Sprint(err)}
}

func asVCS(err error, target **seams.VCSError) bool {
	for e := err; e != nil; {
		if v, ok := e.(*seams.VCSError); ok {
			*target = v
			return true
		}
		u, ok := e.(interface{ Unwrap() error })
		if !ok {
			return false
		}
		e = u.Unwrap()
	}
	return false
}

// c14Backend scripts one of several back ends of a submission.
type c14Backend struct {
	v        *seams.SimVCS
	kind     int // 0 undisturbed, 1 permanent failure at call #at of the first attempt, 2 every attempt fails retriably at call #at, 3 one retriable failure then fine
	at       int
	attempts int
	pos      int
	failed   int
}

func (b *c14Backend) between(site string, ws int) {
	if site == "GetChangeOps" {
		b.attempts++
		b.pos = 0
	}
}

func (b *c14Backend) decide(site string, ws int) seams.Decision {
	p := b.pos
	b.pos++
	if b.attempts > 64 {
		return seams.Decision{Fail: true, Retriable: false} // end a runaway loop; reported as too-many-attempts
	}
	if p != b.at {
		return seams.Decision{}
	}
	switch {
	case b.kind == 1 && b.attempts == 1:
		b.failed++
		return seams.Decision{Fail: true, Retriable: false}
	case b.kind == 2, b.kind == 3 && b.attempts == 1:
		b.failed++
		return seams.Decision{Fail: true, Retriable: true}
	}
	return seams.Decision{}
}

// runC14Multi (random runs): one submission to TWO version-control back ends (Context.VCSs), each
// with its own outcome script. Success is reported exactly when a commit landed on every back
// end; no back end sees more than retries+1 attempts or more than one commit.
func runC14Multi(r *core.Run) {
	budget := c14Budgets[r.Intn(len(c14Budgets), "budget")]
	a := worlda.NewAuthority(r, worlda.Config{KM: "memkm", CA: "memca"}, seams.NewPlanNone(r))
	if err, _ := a.Bootstrap(worlda.BootArgs{}); err != nil {
		r.HarnessErr = "bootstrap: " + err.Error()
		return
	}
	var bs []*c14Backend
	var list []endorse.VersionControl
	for i := 0; i < 2; i++ {
		b := &c14Backend{v: seams.NewSimVCS(r, "/release"), kind: r.Intn(4, "backend-outcome"), at: r.Intn(c14CallsPerAttempt, "backend-fault-call")}
		b.v.Between, b.v.Decide = b.between, b.decide
		b.v.CommitRepr = c14CommitRepr(r)
		bs = append(bs, b)
		list = append(list, b.v)
	}
	q := Req{Image: images.Pool()[0], OutDir: "out", Candidate: "c14", SNP: true, LaunchVmsas: 2, ClSpec: 7, Timestamp: a.Now, Retries: budget, SeedVCSs: list}
	_, err := Endorse(r, a, bs[0].v, q, "")
	allowed := budget + 1
	if allowed < 1 {
		allowed = 1
	}
	var desc []string
	allLanded, fired := true, 0
	for i, b := range bs {
		b.v.Between, b.v.Decide = nil, nil
		landed := 0
		for _, w := range b.v.Spaces {
			if w.Committed {
				landed++
			}
		}
		fired += b.failed
		desc = append(desc, fmt.Sprintf("backend%d(kind=%d,at=%d): %d attempts, %d landed", i, b.kind, b.at, b.attempts, landed))
		if b.attempts > allowed {
			r.Fail("too-many-attempts", "multi-backend", "budget %d: back end %d saw %d attempts, at most %d are allowed", budget, i, b.attempts, allowed)
		}
		if landed > 1 {
			r.Fail("success-misreported", "multi-backend/double-commit", "back end %d received %d commits of one submission", i, landed)
		}
		if len(b.v.Results) != landed {
			r.Fail("result-recorded-≠1", "multi-backend", "back end %d: %d commits landed, Result was called %d times", i, landed, len(b.v.Results))
		}
		if landed == 0 {
			allLanded = false
		}
	}
	where := fmt.Sprintf("budget %d, %s, result %v", budget, strings.Join(desc, "; "), err)
	r.Eval(r.Fingerprint(), fired > 0)
	r.Eventf("multi-backend %s", where)
	if err == nil && !allLanded {
		r.Fail("success-misreported", "multi-backend", "%s: success was reported although a back end received no commit", where)
	}
	if err != nil && allLanded {
		r.Fail("success-misreported", "multi-backend/failure", "%s: an error was reported although every back end received its commit", where)
	}
	r.Probe("two-back-ends")
	r.State(fmt.Sprintf("multi b=%d k=%d,%d ok=%v", budget, bs[0].kind, bs[1].kind, err == nil))
	if r.Sample == nil {
		r.Sample = map[string]any{"budget": budget, "backends": desc, "result": fmt.Sprint(err)}
	}
}
