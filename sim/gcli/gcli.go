// Package gcli drives the gcetcbendorsement cobra application (verify, sev/tdx validate and
// policy, extract, inspect) with a simulated backend: network getter, clock, quote provider and
// an in-memory file IO double, injected through hook H2.
package gcli

import (
	"bytes"
	"context"
	"fmt"
	"io"
	"os"

	"github.com/google/gce-tcb-verifier/gcetcbendorsement"
	gcmd "github.com/google/gce-tcb-verifier/gcetcbendorsement/cmd"
)

// MemIO is the in-memory cmd.IO double.
type MemIO struct {
	Files map[string][]byte
	Out   map[string]*bytes.Buffer
	Reads []string
	// Terminal makes every created destination claim to be a terminal.
	Terminal bool
}

type memWriter struct {
	io.Writer
	term bool
}

func (w memWriter) IsTerminal() bool { return w.term }

// Create implements cmd.IO.
func (m *MemIO) Create(path string) (gcetcbendorsement.TerminalWriter, func(), error) {
	b := &bytes.Buffer{}
	m.Out[path] = b
	return memWriter{b, m.Terminal}, func() {}, nil
}

// ReadFile implements cmd.IO.
func (m *MemIO) ReadFile(path string) ([]byte, error) {
	m.Reads = append(m.Reads, path)
	b, ok := m.Files[path]
	if !ok {
		return nil, os.ErrNotExist
	}
	return append([]byte(nil), b...), nil
}

// NewMemIO returns an empty file system double.
func NewMemIO() *MemIO { return &MemIO{Files: map[string][]byte{}, Out: map[string]*bytes.Buffer{}} }

// Run executes one command line of the gcetcbendorsement application.
func Run(b *gcmd.Backend, args ...string) (err error) {
	defer func() {
		if p := recover(); p != nil {
			err = fmt.Errorf("PANIC: %v", p)
			panic(p)
		}
	}()
	root := gcmd.MakeRoot(gcmd.VerifWithBackend(context.Background(), b))
	root.SetArgs(args)
	root.SilenceErrors, root.SilenceUsage = true, true
	root.SetOut(io.Discard)
	root.SetErr(io.Discard)
	return root.Execute()
}
