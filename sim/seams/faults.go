// Package seams holds the simulated parties (object store, version control, network, clock) and
// the fault-plan machinery the decorators around the repository's own interfaces consult.
package seams

import (
	"errors"
	"fmt"
	"strings"

	"verifsim/core"
)

// Outcome is what a decorated seam call is told to do.
type Outcome int

const (
	// OK lets the call through.
	OK Outcome = iota
	// ErrBefore fails the call without effect.
	ErrBefore
	// ErrAfter applies the effect and then reports an error (lost acknowledgement).
	ErrAfter
	// CrashAfter applies the effect and then stops the simulated process.
	CrashAfter
)

func (o Outcome) String() string {
	return [...]string{"ok", "err-before", "err-after", "crash-after"}[o]
}

// ErrInjected is the error every injected failure wraps.
var ErrInjected = errors.New("injected fault")

// Crash is the sentinel panic that unwinds a simulated process.
type Crash struct{ At string }

// FaultPlan decides, call by call, whether a decorated seam call fails. All decisions come from
// the run's Source, so a plan is fully described by the trace.
type FaultPlan struct {
	R *core.Run
	// Mode: 0 none, 1 single fault at call K of kind Kind, 2 random with RatePct per call.
	Mode    int
	K, K2   int // call indices for swept faults (K2 < 0: none)
	Kind    Outcome
	Kind2   Outcome
	RatePct int
	Kinds   []Outcome // enabled kinds for random mode
	Max     int       // max faults in random mode (0 = unlimited)

	// SitePrefix / SiteLeft: independently of Mode, the next SiteLeft calls whose site name starts
	// with SitePrefix fail before taking effect (a fault aimed at one step of an operation).
	SitePrefix string
	SiteLeft   int

	// CancelArmed / CancelAt / Cancel: the caller gives up at seam call CancelAt — Cancel (the
	// cancel function of the command's context, set by whoever builds that context) is called, and
	// the seam call itself goes ahead: a back end that does not look at the context never notices.
	CancelArmed bool
	CancelAt    int
	Cancel      func()

	Active bool // faults only fire while an operation under test is in flight
	N      int  // decorated calls seen while active
	Fired  int
	Sites  []string // site name of every call seen while active
}

// NewPlanNone returns a plan that never fires but still numbers calls.
func NewPlanNone(r *core.Run) *FaultPlan { return &FaultPlan{R: r, K2: -1} }

// Next is consulted by a decorator at the start of a seam call. mutating says whether err-after
// and crash-after make sense for the call; for a non-mutating call they degrade to err-before
// and to a crash right after the call returns, respectively.
func (p *FaultPlan) Next(site string, mutating bool) Outcome {
	if p == nil || !p.Active {
		return OK
	}
	idx := p.N
	p.N++
	p.Sites = append(p.Sites, site)
	if p.CancelArmed && idx == p.CancelAt && p.Cancel != nil {
		p.CancelArmed = false
		p.Cancel()
		p.R.Fault("caller-cancels", "before call#%d %s", idx, site)
	}
	out := OK
	switch p.Mode {
	case 1:
		if idx == p.K {
			out = p.Kind
		} else if p.K2 >= 0 && idx == p.K2 {
			out = p.Kind2
		}
	case 2:
		if (p.Max == 0 || p.Fired < p.Max) && len(p.Kinds) > 0 && p.R.Chance(p.RatePct, "fault?") {
			out = p.Kinds[p.R.Intn(len(p.Kinds), "fault-kind")]
		}
	}
	if out == OK && p.SiteLeft > 0 && p.SitePrefix != "" && strings.HasPrefix(site, p.SitePrefix) {
		out = ErrBefore
		p.SiteLeft--
	}
	if out == ErrAfter && !mutating {
		out = ErrBefore
	}
	if out != OK {
		p.Fired++
		p.R.Fault(out.String(), "call#%d %s", idx, site)
	} else {
		p.R.Eventf("call#%d %s", idx, site)
	}
	return out
}

// Err builds the injected error for a site.
func Err(site string) error { return fmt.Errorf("%w at %s", ErrInjected, site) }

// Guard runs a seam call under the plan: effect is the real call. It implements the four
// outcomes uniformly for calls that return only an error.
func (p *FaultPlan) Guard(site string, mutating bool, effect func() error) error {
	switch p.Next(site, mutating) {
	case ErrBefore:
		return Err(site)
	case ErrAfter:
		if err := effect(); err != nil {
			return err
		}
		return Err(site)
	case CrashAfter:
		_ = effect()
		panic(Crash{At: site})
	}
	return effect()
}

// RunOp executes op as one simulated process lifetime: faults are active, and a Crash panic is
// caught and reported as crashed=true.
func (p *FaultPlan) RunOp(op func() error) (err error, crashed bool, at string) {
	if p != nil {
		p.Active = true
		defer func() { p.Active = false }()
	}
	defer func() {
		if x := recover(); x != nil {
			if c, ok := x.(Crash); ok {
				crashed, at, err = true, c.At, fmt.Errorf("process crashed after %s", c.At)
				return
			}
			panic(x)
		}
	}()
	return op(), false, ""
}
