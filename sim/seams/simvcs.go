package seams

import (
	"context"
	"errors"
	"fmt"
	"path"
	"sort"

	"github.com/google/gce-tcb-verifier/endorse"

	"verifsim/core"
)

// VCSError is the error type of the simulated version-control back end.
type VCSError struct {
	Site      string
	Retriable bool
	NotFound  bool
	// Cause, when set, is what the back end's error wraps (a transport error, say). The back end
	// classifies by its own error, not by what lies beneath it.
	Cause error
}

// Unwrap exposes the wrapped cause.
func (e *VCSError) Unwrap() error { return e.Cause }

func (e *VCSError) Error() string {
	switch {
	case e.NotFound:
		return "simvcs: " + e.Site + ": file not found"
	case e.Retriable:
		return "simvcs: " + e.Site + ": transient failure"
	}
	return "simvcs: " + e.Site + ": permanent failure"
}

// VCSCall is one entry of the call log the C14/C15 oracles read.
type VCSCall struct {
	Seq       int
	Workspace int // 0 = call on the VersionControl itself
	Name      string
	Arg       string
	Err       error
	HeadRev   int // head revision when the call was made
}

// Decision tells a seam call to fail.
type Decision struct {
	Fail      bool
	Retriable bool
}

// SimVCS implements endorse.VersionControl over an in-memory head with snapshot workspaces and
// optimistic commits: TryCommit fails with a retriable conflict when a file the workspace wrote
// (or read) changed in head since the workspace was created.
type SimVCS struct {
	R       *core.Run
	Root    string
	Head    map[string][]byte
	Modes   map[string]bool // path -> marked binary/writable
	HeadRev int
	Calls   []VCSCall
	Spaces  []*Workspace
	Results []VCSResult
	Commits []VCSCommit
	seq     int
	// Decide, when set, is asked at every seam call whether to fail it.
	Decide func(site string, ws int) Decision
	// Between, when set, runs before every seam call executes: the place where a concurrent
	// writer commits.
	Between func(site string, ws int)
	// Forbidden, when set, makes any call a violation source: used by the C15 doubles.
	Forbidden func(site string)
	// Retain makes the back end keep the very slices it is handed as File.Contents (an in-memory
	// back end may; the interface does not say who owns them) instead of copying them.
	Retain bool
	// WrapCause, when set, gives an injected failure the error it wraps (nil: nothing).
	WrapCause func(retriable bool) error
	// CommitRepr, when set, chooses what a successful TryCommit hands back for revision rev (the
	// interface says `any`: a back end may well have nothing to tell, i.e. nil).
	CommitRepr func(rev int) any
}

// VCSResult is one Result() call.
type VCSResult struct {
	Commit any
	Path   string
}

// VCSCommit is one commit applied to head.
type VCSCommit struct {
	Rev       int
	Workspace int // 0 = external writer
	Files     []string
}

// Workspace implements endorse.ChangeOps.
type Workspace struct {
	V         *SimVCS
	ID        int
	BaseRev   int
	Base      map[string][]byte
	Writes    map[string][]byte
	Reads     map[string]bool
	ModeSet   map[string]bool
	Destroyed int
	Committed bool
	CommitID  any
}

// NewSimVCS returns an empty repository whose release paths live under root.
func NewSimVCS(r *core.Run, root string) *SimVCS {
	return &SimVCS{R: r, Root: root, Head: map[string][]byte{}, Modes: map[string]bool{}}
}

func (v *SimVCS) enter(site string, ws int, arg string) *VCSError {
	if v.Forbidden != nil {
		v.Forbidden(site)
	}
	if v.Between != nil {
		v.Between(site, ws)
	}
	v.seq++
	call := VCSCall{Seq: v.seq, Workspace: ws, Name: site, Arg: arg, HeadRev: v.HeadRev}
	var err *VCSError
	if v.Decide != nil {
		if d := v.Decide(site, ws); d.Fail {
			err = &VCSError{Site: site, Retriable: d.Retriable}
			if v.WrapCause != nil {
				err.Cause = v.WrapCause(d.Retriable)
			}
			call.Err = err
			kind := "vcs-permanent"
			if d.Retriable {
				kind = "vcs-retriable"
			}
			v.R.Fault(kind, "%s ws=%d", site, ws)
		}
	}
	if err == nil {
		v.R.Eventf("vcs %s ws=%d %s", site, ws, arg)
	}
	v.Calls = append(v.Calls, call)
	return err
}

func (v *SimVCS) setErr(err error) {
	v.Calls[len(v.Calls)-1].Err = err
}

// GetChangeOps implements endorse.VersionControl.
func (v *SimVCS) GetChangeOps(context.Context) (endorse.ChangeOps, error) {
	if e := v.enter("GetChangeOps", 0, ""); e != nil {
		return nil, e
	}
	w := &Workspace{V: v, ID: len(v.Spaces) + 1, BaseRev: v.HeadRev, Base: map[string][]byte{}, Writes: map[string][]byte{}, Reads: map[string]bool{}, ModeSet: map[string]bool{}}
	for k, b := range v.Head {
		w.Base[k] = b
	}
	v.Spaces = append(v.Spaces, w)
	v.R.Eventf("vcs workspace %d at rev %d", w.ID, w.BaseRev)
	return w, nil
}

// RetriableError implements endorse.VersionControl.
func (v *SimVCS) RetriableError(err error) bool {
	var e *VCSError
	return errors.As(err, &e) && e.Retriable
}

// Result implements endorse.VersionControl.
func (v *SimVCS) Result(commit any, p string) {
	v.Results = append(v.Results, VCSResult{Commit: commit, Path: p})
	v.R.Eventf("vcs Result(%v, %s)", commit, p)
}

// ReleasePath implements endorse.VersionControl.
func (v *SimVCS) ReleasePath(_ context.Context, p string) string { return path.Join(v.Root, p) }

// ExternalCommit applies a concurrent writer's change to head.
func (v *SimVCS) ExternalCommit(files map[string][]byte) {
	var names []string
	for k, b := range files {
		v.Head[k] = append([]byte(nil), b...)
		names = append(names, k)
	}
	sort.Strings(names)
	v.HeadRev++
	v.Commits = append(v.Commits, VCSCommit{Rev: v.HeadRev, Files: names})
	v.R.Eventf("vcs external commit rev %d %v", v.HeadRev, names)
}

// Files lists head paths, sorted.
func (v *SimVCS) Files() []string {
	out := make([]string, 0, len(v.Head))
	for k := range v.Head {
		out = append(out, k)
	}
	sort.Strings(out)
	return out
}

// WriteOrCreateFiles implements endorse.ChangeOps.
func (w *Workspace) WriteOrCreateFiles(_ context.Context, files ...*endorse.File) error {
	arg := ""
	for _, f := range files {
		arg += f.Path + " "
	}
	if e := w.V.enter("WriteOrCreateFiles", w.ID, arg); e != nil {
		return e
	}
	if w.Destroyed > 0 || w.Committed {
		err := fmt.Errorf("simvcs: workspace %d used after destroy/commit", w.ID)
		w.V.setErr(err)
		return err
	}
	for _, f := range files {
		if w.V.Retain {
			w.Writes[f.Path] = f.Contents
			continue
		}
		w.Writes[f.Path] = append([]byte(nil), f.Contents...)
	}
	return nil
}

// ReadFile implements endorse.ChangeOps.
func (w *Workspace) ReadFile(_ context.Context, p string) ([]byte, error) {
	if e := w.V.enter("ReadFile", w.ID, p); e != nil {
		return nil, e
	}
	w.Reads[p] = true
	if b, ok := w.Writes[p]; ok {
		return append([]byte(nil), b...), nil
	}
	if b, ok := w.Base[p]; ok {
		return append([]byte(nil), b...), nil
	}
	err := &VCSError{Site: "ReadFile " + p, NotFound: true}
	w.V.setErr(err)
	return nil, err
}

// SetBinaryWritable implements endorse.ChangeOps.
func (w *Workspace) SetBinaryWritable(_ context.Context, p string) error {
	if e := w.V.enter("SetBinaryWritable", w.ID, p); e != nil {
		return e
	}
	if _, ok := w.Writes[p]; !ok {
		if _, ok := w.Base[p]; !ok {
			err := &VCSError{Site: "SetBinaryWritable " + p, NotFound: true}
			w.V.setErr(err)
			return err
		}
	}
	w.ModeSet[p] = true
	return nil
}

// IsNotFound implements endorse.ChangeOps.
func (w *Workspace) IsNotFound(err error) bool {
	var e *VCSError
	return errors.As(err, &e) && e.NotFound
}

// Destroy implements endorse.ChangeOps.
func (w *Workspace) Destroy() {
	w.Destroyed++
	w.V.seq++
	w.V.Calls = append(w.V.Calls, VCSCall{Seq: w.V.seq, Workspace: w.ID, Name: "Destroy", HeadRev: w.V.HeadRev})
	w.V.R.Eventf("vcs Destroy ws=%d", w.ID)
}

// TryCommit implements endorse.ChangeOps.
func (w *Workspace) TryCommit(context.Context) (any, error) {
	if e := w.V.enter("TryCommit", w.ID, ""); e != nil {
		return nil, e
	}
	if w.Destroyed > 0 || w.Committed {
		err := fmt.Errorf("simvcs: workspace %d committed after destroy/commit", w.ID)
		w.V.setErr(err)
		return nil, err
	}
	// optimistic concurrency: any file this workspace read or wrote that changed in head since the
	// workspace was created is a conflict
	touched := map[string]bool{}
	for p := range w.Writes {
		touched[p] = true
	}
	for p := range w.Reads {
		touched[p] = true
	}
	var names []string
	for p := range touched {
		names = append(names, p)
	}
	sort.Strings(names)
	for _, p := range names {
		hb, hok := w.V.Head[p]
		bb, bok := w.Base[p]
		if hok != bok || string(hb) != string(bb) {
			err := &VCSError{Site: "TryCommit conflict on " + p, Retriable: true}
			w.V.setErr(err)
			w.V.R.Fault("vcs-conflict", "ws=%d %s", w.ID, p)
			return nil, err
		}
	}
	var files []string
	for p, b := range w.Writes {
		w.V.Head[p] = b
		files = append(files, p)
	}
	for p := range w.ModeSet {
		w.V.Modes[p] = true
	}
	sort.Strings(files)
	w.V.HeadRev++
	w.Committed = true
	w.CommitID = fmt.Sprintf("rev-%d", w.V.HeadRev)
	if w.V.CommitRepr != nil {
		w.CommitID = w.V.CommitRepr(w.V.HeadRev)
	}
	w.V.Commits = append(w.V.Commits, VCSCommit{Rev: w.V.HeadRev, Workspace: w.ID, Files: files})
	w.V.R.Eventf("vcs commit ws=%d -> %v %v", w.ID, w.CommitID, files)
	return w.CommitID, nil
}
