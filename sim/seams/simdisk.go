package seams

import (
	"bytes"
	"context"
	"errors"
	"io"
	"io/fs"
	"sort"
	"strings"

	"verifsim/core"
)

// WriteRec is one durable change of the simulated object store.
type WriteRec struct {
	Op     string // "put" or "wipe"
	Bucket string
	Object string
	Data   []byte
}

// SimDisk is the simulated object store behind storagei.Client. Objects are atomic: they become
// visible when the writer's Close succeeds (the object-store contract gcsca is written for). A
// failed Write poisons the writer: Close then fails and nothing is committed.
type SimDisk struct {
	R       *core.Run
	Plan    *FaultPlan
	Objects map[string][]byte // "bucket\x00object" -> content
	Buckets map[string]bool
	Log     []WriteRec // committed changes, in order
	// FailCloseN makes the N-th Close call (0-based, counted from the moment it is set) fail
	// without committing: a lost write. -1 / zero value with closes==0 semantics: see NewSimDisk.
	FailCloseN int
	closes     int
	// WipeoutLostAck makes the next Wipeout remove everything and then report an error (the
	// acknowledgement is lost, or the bucket itself cannot be removed after its objects were).
	WipeoutLostAck bool
	// WipeoutRefused makes the next Wipeout fail without removing anything.
	WipeoutRefused bool
	// FailObject makes EVERY Close of the named object fail (a persistent failure: retrying the
	// write does not help), nothing is committed.
	FailObject string
}

// NewSimDisk returns an empty store.
func NewSimDisk(r *core.Run, plan *FaultPlan) *SimDisk {
	return &SimDisk{R: r, Plan: plan, Objects: map[string][]byte{}, Buckets: map[string]bool{}, FailCloseN: -1}
}

func okey(bucket, object string) string { return bucket + "\x00" + object }

// Snapshot returns a deep copy of the durable state (log not included).
func (d *SimDisk) Snapshot() *SimDisk {
	c := &SimDisk{R: d.R, Plan: d.Plan, Objects: map[string][]byte{}, Buckets: map[string]bool{}, FailCloseN: -1}
	for k, v := range d.Objects {
		c.Objects[k] = append([]byte(nil), v...)
	}
	for k, v := range d.Buckets {
		c.Buckets[k] = v
	}
	return c
}

// Apply replays a recorded change onto the store without going through the fault plan.
func (d *SimDisk) Apply(w WriteRec) {
	switch w.Op {
	case "put":
		d.Buckets[w.Bucket] = true
		d.Objects[okey(w.Bucket, w.Object)] = append([]byte(nil), w.Data...)
	case "wipe":
		for k := range d.Objects {
			if strings.HasPrefix(k, w.Bucket+"\x00") {
				delete(d.Objects, k)
			}
		}
	}
}

// Names lists object names of a bucket, sorted.
func (d *SimDisk) Names(bucket string) []string {
	var out []string
	for k := range d.Objects {
		if strings.HasPrefix(k, bucket+"\x00") {
			out = append(out, strings.TrimPrefix(k, bucket+"\x00"))
		}
	}
	sort.Strings(out)
	return out
}

// Get reads an object directly (oracle access, no faults).
func (d *SimDisk) Get(bucket, object string) ([]byte, bool) {
	b, ok := d.Objects[okey(bucket, object)]
	return b, ok
}

type notExist struct{ name string }

func (e *notExist) Error() string   { return "simdisk: object " + e.name + " does not exist" }
func (e *notExist) Is(t error) bool { return t == fs.ErrNotExist }

// Reader implements storagei.Client.
func (d *SimDisk) Reader(_ context.Context, bucket, object string) (io.ReadCloser, error) {
	site := "disk.Reader(" + object + ")"
	switch d.Plan.Next(site, false) {
	case ErrBefore:
		return nil, Err(site)
	case CrashAfter:
		panic(Crash{At: site})
	}
	b, ok := d.Objects[okey(bucket, object)]
	if !ok {
		return nil, &notExist{object}
	}
	return io.NopCloser(bytes.NewReader(append([]byte(nil), b...))), nil
}

// Exists implements storagei.Client.
func (d *SimDisk) Exists(_ context.Context, bucket, object string) (bool, error) {
	site := "disk.Exists(" + object + ")"
	switch d.Plan.Next(site, false) {
	case ErrBefore:
		return false, Err(site)
	case CrashAfter:
		panic(Crash{At: site})
	}
	_, ok := d.Objects[okey(bucket, object)]
	return ok, nil
}

type simWriter struct {
	d              *SimDisk
	bucket, object string
	buf            []byte
	poisoned       bool
	closed         bool
}

// Writer implements storagei.Client.
func (d *SimDisk) Writer(_ context.Context, bucket, object string) (io.WriteCloser, error) {
	site := "disk.Writer(" + object + ")"
	switch d.Plan.Next(site, false) {
	case ErrBefore:
		return nil, Err(site)
	case CrashAfter:
		panic(Crash{At: site})
	}
	return &simWriter{d: d, bucket: bucket, object: object}, nil
}

func (w *simWriter) Write(p []byte) (int, error) {
	site := "disk.Write(" + w.object + ")"
	switch w.d.Plan.Next(site, false) {
	case ErrBefore:
		// short write: part of the data is taken, then the stream breaks
		n := len(p) / 2
		w.buf = append(w.buf, p[:n]...)
		w.poisoned = true
		return n, Err(site)
	case CrashAfter:
		panic(Crash{At: site})
	}
	w.buf = append(w.buf, p...)
	return len(p), nil
}

func (w *simWriter) commit() {
	w.d.Buckets[w.bucket] = true
	w.d.Objects[okey(w.bucket, w.object)] = append([]byte(nil), w.buf...)
	w.d.Log = append(w.d.Log, WriteRec{Op: "put", Bucket: w.bucket, Object: w.object, Data: append([]byte(nil), w.buf...)})
	w.d.R.Eventf("disk commit %s (%d bytes)", w.object, len(w.buf))
}

func (w *simWriter) Close() error {
	site := "disk.Close(" + w.object + ")"
	if w.closed {
		return errors.New("simdisk: writer closed twice")
	}
	w.closed = true
	if w.poisoned {
		w.d.Plan.Next(site+"[poisoned]", false)
		return Err(site + " after failed write")
	}
	if w.d.FailObject != "" && w.object == w.d.FailObject {
		w.d.R.Fault("persistent-write-failure", "%s", site)
		return Err(site)
	}
	n := w.d.closes
	w.d.closes++
	if n == w.d.FailCloseN {
		w.d.R.Fault("lost-write", "%s", site)
		return Err(site)
	}
	switch w.d.Plan.Next(site, true) {
	case ErrBefore:
		return Err(site)
	case ErrAfter:
		w.commit()
		return Err(site)
	case CrashAfter:
		w.commit()
		panic(Crash{At: site})
	}
	w.commit()
	return nil
}

// IsNotExists implements storagei.Client.
func (d *SimDisk) IsNotExists(err error) bool { return errors.Is(err, fs.ErrNotExist) }

// EnsureBucketExists implements storagei.Client.
func (d *SimDisk) EnsureBucketExists(_ context.Context, bucket string) error {
	return d.Plan.Guard("disk.EnsureBucket", true, func() error {
		d.Buckets[bucket] = true
		return nil
	})
}

// Wipeout implements storagei.Client.
func (d *SimDisk) Wipeout(_ context.Context, bucket string) error {
	return d.Plan.Guard("disk.Wipeout", true, func() error {
		if d.WipeoutRefused {
			d.WipeoutRefused = false
			d.R.Fault("wipeout-refused", "%s", bucket)
			return Err("disk.Wipeout (refused, nothing removed)")
		}
		rec := WriteRec{Op: "wipe", Bucket: bucket}
		d.Apply(rec)
		d.Log = append(d.Log, rec)
		d.R.Eventf("disk wipe %s", bucket)
		if d.WipeoutLostAck {
			d.WipeoutLostAck = false
			d.R.Fault("wipeout-lost-ack", "%s", bucket)
			return Err("disk.Wipeout (objects removed, acknowledgement lost)")
		}
		return nil
	})
}
