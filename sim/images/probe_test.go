package images

import (
	"testing"

	"github.com/google/gce-tcb-verifier/sev"
	"github.com/google/gce-tcb-verifier/tdx"
)

func TestPool(t *testing.T) {
	seen := map[[48]byte]bool{}
	for _, im := range Pool() {
		if seen[im.Digest] {
			t.Fatal("duplicate digest")
		}
		seen[im.Digest] = true
		if _, err := sev.UnsignedSnp(im.Bytes, &sev.SnpEndorsementRequest{Product: 1}); err != nil {
			t.Fatalf("%s snp: %v", im.Name, err)
		}
		if im.TDX {
			if _, err := tdx.UnsignedTDX(im.Bytes, &tdx.EndorsementRequest{MachineShapes: []string{"c3-standard-4"}, IncludeEarlyAccept: true}); err != nil {
				t.Fatalf("%s tdx: %v", im.Name, err)
			}
		}
	}
}
