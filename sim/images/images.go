// Package images builds the pool of fake firmware images the simulated worlds endorse.
package images

import (
	"crypto/sha512"
	"fmt"
	"sync"
	"testing"

	"github.com/google/gce-tcb-verifier/testing/fakeovmf"
)

// tb is the minimal testing.TB fakeovmf wants.
type tb struct{ testing.TB }

func (tb) Helper()                           {}
func (tb) Fatalf(format string, args ...any) { panic(fmt.Sprintf(format, args...)) }

// Image is one firmware image of the pool.
type Image struct {
	Name   string
	Bytes  []byte
	Digest [48]byte
	TDX    bool // carries TDVF metadata (2 MiB layout)
}

var (
	once sync.Once
	pool []*Image
)

func mk(name string, size int, salt byte, tdx bool) *Image {
	b := fakeovmf.CleanExample(tb{}, size)
	// Make contents (and therefore digests and measurements) differ between pool members.
	for i := 0; i < 64; i++ {
		b[0x400+i] = salt + byte(i)
	}
	if tdx {
		// the first 0x20000 bytes of the 2 MiB layout are the configuration volume, which TDX does
		// not extend into MRTD; salt the boot firmware volume too
		for i := 0; i < 64; i++ {
			b[0x30000+i] = salt + byte(i)
		}
	}
	return &Image{Name: name, Bytes: b, Digest: sha512.Sum384(b), TDX: tdx}
}

// Pool returns the image pool: four small SNP-only images and two 2 MiB images that also carry
// TDVF metadata.
func Pool() []*Image {
	once.Do(func() {
		pool = []*Image{
			mk("fw-a.fd", 0x2000, 1, false),
			mk("fw-b.fd", 0x2000, 2, false),
			mk("fw-c.fd", 0x4000, 3, false),
			mk("fw-d.fd", 0x10000, 4, false),
			mk("fw-tdx-a.fd", 0x200000, 5, true),
			mk("fw-tdx-b.fd", 0x200000, 6, true),
		}
	})
	return pool
}

// Small returns the SNP-only images.
func Small() []*Image { return Pool()[:4] }
