// Package images builds the pool of fake firmware images the simulated worlds endorse.
package images

import (
	"crypto/sha512"
	"fmt"
	oabi "github.com/google/gce-tcb-verifier/ovmf/abi"
	"sync"
	"testing"

	"github.com/google/gce-tcb-verifier/testing/fakeovmf"
)

// tb is the minimal testing.TB fakeovmf wants.
type tb struct{ testing.TB }

func (tb) Helper()                           {}
func (tb) Fatalf(format string, args ...any) { panic(fmt.Sprintf(format, args...)) }

// Image is one firmware image of the pool.
type Image struct {
	Name   string
	Bytes  []byte
	Digest [48]byte
	TDX    bool // carries TDVF metadata (2 MiB layout)
}

var (
	once sync.Once
	pool []*Image
)

func mk(name string, size int, salt byte, tdx bool) *Image {
	b := fakeovmf.CleanExample(tb{}, size)
	// Make contents (and therefore digests and measurements) differ between pool members.
	for i := 0; i < 64; i++ {
		b[0x400+i] = salt + byte(i)
	}
	if tdx {
		// the first 0x20000 bytes of the 2 MiB layout are the configuration volume, which TDX does
		// not extend into MRTD; salt the boot firmware volume too
		for i := 0; i < 64; i++ {
			b[0x30000+i] = salt + byte(i)
		}
	}
	return &Image{Name: name, Bytes: b, Digest: sha512.Sum384(b), TDX: tdx}
}

// mkCaa builds a small SNP-only image whose SEV metadata also lists an SVSM calling-area section
// (section kind 4, which the launch-digest code takes as a zero page).
func mkCaa(name string, salt byte) *Image {
	b := make([]byte, 0x1000)
	copy(b[0x800:], []byte("LGTMLGTMLGTMLGTM"))
	copy(b[0xa00:], []byte("LGTMLGTMLGTMLGTM"))
	for i := 0; i < 64; i++ {
		b[0x400+i] = salt + byte(i)
	}
	sections := append(fakeovmf.DefaultSnpSections(), oabi.SevMetadataSection{Address: 0xff005000, Length: oabi.PageSize, Kind: oabi.SevSvsmCaaSection})
	if err := fakeovmf.InitializeSevGUIDTable(b, oabi.FwGUIDTableEndOffset, fakeovmf.SevEsAddrVal, sections); err != nil {
		panic(err)
	}
	return &Image{Name: name, Bytes: b, Digest: sha512.Sum384(b)}
}

// Pool returns the image pool: four small SNP-only images, two 2 MiB images that also carry
// TDVF metadata, and one SNP-only image with an SVSM calling-area section.
func Pool() []*Image {
	once.Do(func() {
		pool = []*Image{
			mk("fw-a.fd", 0x2000, 1, false),
			mk("fw-b.fd", 0x2000, 2, false),
			mk("fw-c.fd", 0x4000, 3, false),
			mk("fw-d.fd", 0x10000, 4, false),
			mk("fw-tdx-a.fd", 0x200000, 5, true),
			mk("fw-tdx-b.fd", 0x200000, 6, true),
			mkCaa("fw-caa.fd", 7),
		}
	})
	return pool
}

// Small returns the SNP-only images.
func Small() []*Image { return Pool()[:4] }
