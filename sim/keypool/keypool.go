// Package keypool holds a fixed pool of RSA-2048 test keys. Simulated authorities "generate" keys
// by taking the next one from the pool (hook H3), so key bytes are the same in every execution of
// a trace and key generation costs nothing.
package keypool

import (
	"crypto/rsa"
	"crypto/x509"
	_ "embed"
	"encoding/pem"
	"io"
	"sync"
)

//go:embed keys.pem
var keysPEM []byte

var (
	once sync.Once
	pool []*rsa.PrivateKey
)

// Pool returns the parsed pool.
func Pool() []*rsa.PrivateKey {
	once.Do(func() {
		rest := keysPEM
		for {
			var b *pem.Block
			b, rest = pem.Decode(rest)
			if b == nil {
				break
			}
			k, err := x509.ParsePKCS1PrivateKey(b.Bytes)
			if err != nil {
				panic(err)
			}
			k.Precompute()
			pool = append(pool, k)
		}
	})
	return pool
}

// Gen hands out pool keys in sequence starting at Base. Distinct calls within one run return
// distinct keys as long as fewer than len(Pool()) keys are requested.
type Gen struct {
	Base  int
	Count int
}

// Generate has the signature of nonprod.VerifGenerateKey.
func (g *Gen) Generate(_ io.Reader, _ int) (*rsa.PrivateKey, error) {
	p := Pool()
	k := p[(g.Base+g.Count)%len(p)]
	g.Count++
	// Hand out a copy so destroying/mutating one authority's key never touches the pool.
	c := *k
	return &c, nil
}
