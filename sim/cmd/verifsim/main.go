// Command verifsim is both the orchestrator (check, replay, determinism) and the worker binary
// for every world that builds with the default toolchain.
package main

import (
	"fmt"
	"os"
	"path/filepath"

	"verifsim/core"
	"verifsim/orch"
	_ "verifsim/worlda"
	_ "verifsim/worldp"
	_ "verifsim/worldr"
	_ "verifsim/worlds"
)

func main() {
	if len(os.Args) < 2 {
		fmt.Fprintln(os.Stderr, "usage: verifsim check <id> [quick|thorough] | replay [-v] <file> | determinism <id> [n] | describe|worker|shrink ...")
		os.Exit(2)
	}
	// The verification directory is where this binary lives (<verif>/bin/verifsim), so a snapshot
	// of /verif run elsewhere uses its own binaries, evidence and replays.
	verif := os.Getenv("VERIF_DIR")
	if verif == "" {
		verif = "/verif"
		if exe, err := os.Executable(); err == nil {
			if d := filepath.Dir(filepath.Dir(exe)); filepath.Base(filepath.Dir(exe)) == "bin" {
				verif = d
			}
		}
	}
	cfg := orch.Config{VerifDir: verif, BinDir: filepath.Join(verif, "bin")}
	switch os.Args[1] {
	case "check":
		tier := os.Getenv("VERIF_TIER")
		if len(os.Args) > 3 {
			tier = os.Args[3]
		}
		if tier == "" {
			tier = "quick"
		}
		os.Exit(orch.Check(cfg, os.Args[2], tier))
	case "replay-file":
		verbose := len(os.Args) > 3 && os.Args[2] == "-v"
		os.Exit(orch.Replay(cfg, os.Args[len(os.Args)-1], verbose))
	case "determinism":
		n := 64
		if len(os.Args) > 3 {
			fmt.Sscan(os.Args[3], &n)
		}
		os.Exit(orch.Determinism(cfg, os.Args[2], "quick", n))
	default:
		os.Exit(core.Main(os.Args[1:]))
	}
}
