#!/bin/bash
# Builds the worker/orchestrator binaries from /verif/sim against /repo's working tree.
# usage: build.sh [property id]   (C20 additionally builds the synctest worker with go1.26.8)
set -eu
cd "$(dirname "$0")/sim"
export GOFLAGS=-mod=mod GOPROXY=off GOSUMDB=off GOTOOLCHAIN=local GOWORK=off
mkdir -p ../bin
go build -tags verif -o ../bin/verifsim ./cmd/verifsim
if [ "${1:-}" = "C20" ] || [ "${1:-}" = "all" ]; then
  if [ -d worldk ]; then
    go1.26.8 test -tags verif -c -o ../bin/worldk.test ./worldk
  fi
fi
