#!/bin/bash
# Builds the worker/orchestrator binaries from /verif/sim against /repo's working tree.
# usage: build.sh [property id]   (C20 additionally builds the synctest worker with go1.26.8)
set -eu
cd "$(dirname "$0")/sim"
export GOFLAGS=-mod=mod GOPROXY=off GOSUMDB=off GOTOOLCHAIN=local GOWORK=off
mkdir -p ../bin
# The repository under test: /repo's working tree, unless a background run was given its own
# snapshot of /repo (vp run --with-repo sets VP_RUN_REPO), so that edits made to /repo meanwhile
# do not leak into it.
REPO="${VERIF_REPO:-${VP_RUN_REPO:-/repo}}"
MODFILE=""
if [ "$REPO" != "/repo" ]; then
  MODDIR=$(mktemp -d /tmp/verifsim-mod-XXXXXX)
  sed "s#=> /repo#=> $REPO#" go.mod > "$MODDIR/go.mod"; cp go.sum "$MODDIR/go.sum"
  MODFILE="-modfile=$MODDIR/go.mod"
fi
go build $MODFILE -tags verif -o ../bin/verifsim ./cmd/verifsim
if [ "${1:-}" = "C09" ] || [ "${1:-}" = "all" ]; then
  # C09 worker: built against a scratch copy of /repo in which a yield point precedes every
  # statement of the validator path (tools/yieldins). The copy is removed again.
  COPY=$(mktemp -d /tmp/verifsim-c09-XXXXXX)
  trap 'rm -rf "$COPY"' EXIT
  go build -o ../bin/yieldins ./tools/yieldins
  c09build() {
    rsync -a --delete --exclude .git "$REPO/" "$COPY/"
    ../bin/yieldins "$COPY" verify/verify.go gcetcbendorsement/sevvalidate.go gcetcbendorsement/sevpolicy.go gcetcbendorsement/tdxvalidate.go gcetcbendorsement/tdxpolicy.go >/dev/null
    sed "s#=> /repo#=> $COPY#" go.mod > "$COPY/harness.mod"
    cp go.sum "$COPY/harness.sum"
    # a test binary built with the newer toolchain: the wall-clock scenario runs in a synctest bubble
    go1.26.8 test -c -modfile="$COPY/harness.mod" -tags "verif verifyield" -o ../bin/verifsim-c09 ./worldr
  }
  # Lock()/RLock() statements are routed through the scheduler (TryLock + park); a receiver that has
  # no Try method does not compile that way, so fall back to plain yield insertion.
  c09build 2>/tmp/verifsim-c09-build.$$ || { echo "build.sh: C09 worker does not build with scheduler-aware locks; retrying without" >&2; VERIF_YIELD_NOLOCKS=1 c09build; }
  rm -f /tmp/verifsim-c09-build.$$
  # the race probe: a -race test binary of the same package against the unmodified repository
  go1.26.8 test -c -race $MODFILE -tags verif -o ../bin/verifsim-c09-race ./worldr
  rm -rf "$COPY"; trap - EXIT
fi
if [ "${1:-}" = "C20" ] || [ "${1:-}" = "all" ]; then
  if [ -d worldk ]; then
    go1.26.8 test $MODFILE -tags verif -c -o ../bin/worldk.test ./worldk
  fi
fi
[ -n "${MODDIR:-}" ] && rm -rf "$MODDIR"
exit 0
