#!/bin/bash
# usage: run_all.sh [quick|thorough]  — runs every claimed check in turn; prints one line per check.
cd "$(dirname "$0")"
T="${1:-quick}"
rc=0
for id in $(python3 -c "import json;print(' '.join(c['property_id'] for c in json.load(open('MANIFEST.json'))['checks']))"); do
  out=$(./check.sh $id $T 2>&1); code=$?
  echo "$id exit=$code $(echo "$out" | grep -v '^WARN' | tail -1 | cut -c1-200)"
  echo "$out" | grep "^VIOLATION\|^KNOWN-FINDING\|^HARNESS" | cut -c1-300
  [ $code -ne 0 ] && rc=1
done
exit $rc
